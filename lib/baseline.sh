#!/bin/sh
# run the repository's pinned test suite (guard off) and print the summary
cd /repo/$(cat /w/out/cargo_root.txt 2>/dev/null) || exit 2
cargo nextest run --workspace --no-fail-fast --tool-config-file pb:/w/lib/nextest.toml --profile pb --test-threads 8 --offline 2>&1 | grep -E "^\s+(FAIL|Summary|TIMEOUT)|error(\[|:)" | sort | uniq | tail -30

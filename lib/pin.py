#!/usr/bin/env python3
"""pin.py <property> <name> <what> < case.json  — store a pinned finding input under
findings/<property>/<name>.json and append its line to KNOWN_FINDINGS.txt (used while
developing the checks; never called by a check)."""
import json
import os
import sys

sys.path.insert(0, os.path.dirname(os.path.abspath(__file__)))
import vlib  # noqa: E402

pid, name, what = sys.argv[1], sys.argv[2], sys.argv[3]
case = json.load(sys.stdin)
if case.get("file") and not case.get("src"):
    key = vlib.canon_key(open(os.path.join(vlib.REPO, case["file"])).read())
else:
    key = vlib.canon_key(case.get("src") or case.get("key_obj") or case)
d = os.path.join(vlib.VERIF, "findings", pid)
os.makedirs(d, exist_ok=True)
case["what"] = what
case["key"] = key
path = os.path.join(d, name + ".json")
json.dump(case, open(path, "w"), indent=1)
line = f"known: property={pid} key={key} input=findings/{pid}/{name}.json :: {what}\n"
kf = os.path.join(vlib.VERIF, "KNOWN_FINDINGS.txt")
cur = open(kf).read()
if f"property={pid} key={key} " not in cur:
    open(kf, "a").write(line)
print(line, end="")

#!/usr/bin/env python3
"""pin_live.py: development helper (never called by a check). Picks, for each kind of edit, one history of the
live-coding loop in which the WASM path (compiler subprocess, state layout lost) must move a surviving voice,
confirms on the real code that channel A breaks, and pins it (findings/C07/live_<kind>.json + KNOWN_FINDINGS.txt)."""
import json, os, sys
sys.path.insert(0, os.path.dirname(os.path.abspath(__file__)))
import vlib, printer
from props import c07

r = vlib.run_tlc("EditSwap", "EditSwap_live_run", workers=8, timeout=3000)
reps = sorted(r.tagged["REPLAY"], key=lambda x: json.dumps(x, sort_keys=True))
picked = {}
for rep in reps:
    hist = rep["hist"]
    edits = [h for h in hist[1:] if h["op"] not in ("cb", "broken")]
    if len(edits) != 1 or any(h["op"] == "broken" for h in hist):
        continue
    kind = edits[0]["op"]
    if kind in picked or kind == "resave":
        continue
    lay = [c07.voices_of(hist[0]["prog"]), c07.voices_of(edits[0]["prog"])]
    if c07.keeps_offsets(lay[0], lay[1]):
        continue
    # the edit must come after at least one rendered frame and be followed by two or more constrained frames
    idx = hist.index(edits[0])
    before = sum(h.get("frames", 0) for h in hist[1:idx] if h["op"] == "cb")
    if before < 1 or sum(rep["mask"][before:]) < 2:
        continue
    picked[kind] = rep
env = dict(os.environ, MMVERIF_HOME=os.path.join(vlib.WORK, "home"))
for kind, rep in sorted(picked.items()):
    hist = rep["hist"]
    ops, labels = [], []
    for h in hist[1:]:
        if h["op"] == "cb":
            ops.append({"op": "cb", "frames": h["frames"]}); labels.append(f"cb({h['frames']})")
        else:
            ops.append({"op": "edit", "src": printer.program(h["prog"])}); labels.append(h["op"])
    src0 = printer.program(hist[0]["prog"])
    req = {"id": 0, "backend": "wasm", "src": src0, "ops": ops, "hch": 2, "bufsize": 64, "dir": vlib.WORK}
    (_, out, crash), = vlib.run_harness("live", [req], timeout_per_req=60, env=env)
    got = [row[0] for row in out["out"]]
    bad = any(m and float(g) != c07.f32(e) for g, e, m in zip(got, rep["expectA"], rep["mask"]))
    print(kind, labels, "got", got, "expected", rep["expectA"], "mask", rep["mask"], "FAILS" if bad else "passes")
    if not bad:
        continue
    key = vlib.canon_key({"live": "wasm", "src": src0, "ops": ops})
    what = (f"live-coding loop on WASM, history {labels}: the CLI compiles WASM in a subprocess that returns only the module bytes, "
            f"so the payload carries no state layout and the audio thread copies the old state words verbatim; after the edit "
            f"'{kind}' moves a surviving voice, channel A is {got} instead of {rep['expectA']}")
    case = {"backend": "wasm", "src": src0, "ops": ops, "labels": labels, "expectA": rep["expectA"], "mask": rep["mask"],
            "what": what, "key": key}
    d = os.path.join(vlib.VERIF, "findings", "C07"); os.makedirs(d, exist_ok=True)
    json.dump(case, open(os.path.join(d, f"live_{kind}.json"), "w"), indent=1)
    line = f"known: property=C07 key={key} input=findings/C07/live_{kind}.json :: {what}\n"
    kf = os.path.join(vlib.VERIF, "KNOWN_FINDINGS.txt")
    if f"property=C07 key={key} " not in open(kf).read():
        open(kf, "a").write(line)

#!/bin/bash
# coverage.sh <ID>... : development helper (not a check). Runs the quick tier of the given checks with a
# coverage-instrumented build of the harness (/tmp/covtarget, built with cargo +nightly and -C instrument-coverage)
# and writes per-file line coverage of /repo to /tmp/cov/<ID>.txt; evidence files are restored afterwards.
TC=$HOME/.rustup/toolchains/nightly-x86_64-unknown-linux-gnu/lib/rustlib/x86_64-unknown-linux-gnu/bin
BIN=/tmp/covtarget/debug/mmverif
for c in "$@"; do
  rm -rf /tmp/cov/$c; mkdir -p /tmp/cov/$c
  t0=$(date +%s)
  ( cd /verif && VERIF_DEV_HARNESS_BIN=$BIN LLVM_PROFILE_FILE=/tmp/cov/$c/%p-%8m.profraw ./check $c --tier ${TIER:-quick} > /tmp/cov/$c.log 2>&1 )
  echo "$c exit=$? $(( $(date +%s) - t0 ))s profraw=$(ls /tmp/cov/$c | wc -l)"
  $TC/llvm-profdata merge -sparse /tmp/cov/$c/*.profraw -o /tmp/cov/$c.profdata 2>/dev/null && rm -rf /tmp/cov/$c
  $TC/llvm-cov report $BIN -instr-profile=/tmp/cov/$c.profdata --ignore-filename-regex='(registry|rustc|verif/harness)' > /tmp/cov/$c.txt 2>/dev/null
done
cd /verif && git checkout -- evidence

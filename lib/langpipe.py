"""Shared pipeline of the Lang-based checks (C01 C02 C03 C05 C06 C16 C18):
TLC (LangGen) -> REPLAY lines -> source text -> harness `run` -> comparison."""
import json
import os

import printer
import vlib

DEFAULT_CONSTS = {
    "Budget": 4,
    "Template": '"f"',
    "UseInput": "FALSE",
    "Lits": "{1, 2}",
    "Ops": '{"+", "*", "-", "<"}',
    "Helpers": '{"counter", "lag", "pacc", "dl", "nest", "dbl", "apply", "mk", "swap", "acc7"}',
    "Prods": '{"now", "neg", "if", "mem", "delay", "proj", "app", "let", "letp", "letf", "lett", "asg", '
             '"tup", "ifp", "lam", "fnref"}',
    "NSamples": 6,
    "AllowStatefulInBranchArm": "TRUE",
    "AllowStatefulInLambda": "FALSE",
    "AllowProjAsFeedResult": "FALSE",
    "DelayTimes": '"std"',
    "GlobalSet": '"none"',
}


# Jobs over the extensions of Lang.tla (fourth session).  CORE: constructs inside C02's statement (records, closures
# handed to functions and to other closures, two output channels).  X: constructs outside C02's list (arrays, numeric
# match, a recursive function): the specification's value is compared where a check says so, the back ends / the
# generated Rust are always compared with each other.
_REC = {"Lits": "{1}", "Ops": '{"+"}', "Helpers": '{"pick", "mkr"}'}
EXT_CORE = {
    "quick": [
        # a captured variable, a capturing closure, closures built around it and handed to named functions
        ("hof8", {"Template": '"hof"', "Budget": 8, "Lits": "{2}", "Ops": '{"*"}', "Helpers": '{"apply", "mk"}',
                  "Prods": '{"app", "lam"}'}),
        # record literals / updates whose initialisers assign a shared variable (written order, not layout order)
        ("recclo8", {"Template": '"clo"', "Budget": 8, "Lits": "{2}", "Ops": '{"+"}', "Helpers": '{"pick"}',
                     "Prods": '{"app", "fld", "letr", "rec", "recupd2"}'}),
        ("rec6", dict(_REC, Template='"dsp"', UseInput="TRUE", Budget=6,
                      Prods='{"fld", "letr", "rec", "recupd", "recupd2", "asgf"}')),
        ("dsp2c5", {"Template": '"dsp2"', "UseInput": "FALSE", "Budget": 5, "Lits": "{1}", "Ops": '{"+", "*"}'}),
        # stateful calls next to calls of a closure in one function (cursor bookkeeping around a call through a handle)
        ("hofstate9", {"Template": '"hof"', "Budget": 9, "Lits": "{}", "Ops": '{"+"}', "Helpers": '{"counter", "lag"}',
                       "Prods": '{"app"}'}),
        # the callee of an application is itself an expression with stateful call sites (mk(counter(1))(x))
        ("appstate6", {"Template": '"f"', "Budget": 6, "Lits": "{1}", "Ops": '{"+"}', "Helpers": '{"mk", "counter", "lag"}',
                       "Prods": '{"app", "now"}'}),
    ],
    "thorough": [
        ("hof9", {"Template": '"hof"', "Budget": 9, "Lits": "{2}", "Ops": '{"*"}', "Helpers": '{"apply", "mk"}',
                  "Prods": '{"app", "lam", "letf"}'}),
        ("recclo9", {"Template": '"clo"', "Budget": 9, "Lits": "{2}", "Ops": '{"+"}', "Helpers": '{"pick", "mkr"}',
                     "Prods": '{"app", "fld", "letr", "rec", "recupd", "recupd2", "asgf"}'}),
        ("rec7", dict(_REC, Template='"f"', UseInput="TRUE", Budget=7, Helpers='{"pick", "mkr", "counter"}',
                      Prods='{"fld", "letr", "rec", "recupd", "recupd2", "asgf", "if", "ifr"}')),
        ("dsp2c6", {"Template": '"dsp2"', "UseInput": "FALSE", "Budget": 6, "Lits": "{1}", "Ops": '{"+"}'}),
        ("appstate7", {"Template": '"f"', "Budget": 7, "Lits": "{1}", "Ops": '{"+"}', "Helpers": '{"mk", "counter", "lag", "apply"}',
                       "Prods": '{"app", "now", "lam"}'}),
    ],
}
EXT_X = {
    "quick": [
        ("x_arr5", {"Template": '"f"', "UseInput": "TRUE", "Budget": 5, "Lits": "{1}", "Ops": '{"+"}',
                    "Helpers": '{"counter", "sumto"}', "Prods": '{"now", "arr", "idx", "idxv", "len", "leta", "match"}'}),
        # array literals whose elements call a closure that assigns a shared variable (order of the elements)
        ("x_arrclo10", {"Template": '"clo"', "Budget": 10, "Lits": "{2}", "Ops": "{}", "Helpers": "{}", "Prods": '{"app", "arr", "idx"}'}),
        ("x_matchst5", {"Template": '"f"', "Budget": 5, "Lits": "{1}", "Ops": '{"+"}', "Helpers": '{"counter", "lag"}',
                        "Prods": '{"now", "match", "mem"}'}),
    ],
    "thorough": [
        ("x_arr6", {"Template": '"f"', "UseInput": "TRUE", "Budget": 6, "Lits": "{1}", "Ops": '{"+"}',
                    "Helpers": '{"counter", "sumto"}', "Prods": '{"now", "arr", "idx", "idxv", "len", "leta", "match"}'}),
        ("x_arrclo11", {"Template": '"clo"', "Budget": 11, "Lits": "{2}", "Ops": "{}", "Helpers": "{}", "Prods": '{"app", "arr", "idx", "leta"}'}),
        ("x_matchst6", {"Template": '"f"', "Budget": 6, "Lits": "{1}", "Ops": '{"+"}', "Helpers": '{"counter", "lag"}',
                        "Prods": '{"now", "match", "mem"}'}),
    ],
}


def ext_jobs(tier, x=True):
    """quick: the quick lists; thorough: the thorough lists (deeper versions of the same jobs)"""
    return EXT_CORE[tier] + (EXT_X[tier] if x else [])


def write_cfg(name, consts, invariants=("Emit",)):
    c = dict(DEFAULT_CONSTS)
    c.update(consts)
    path = os.path.join(vlib.TLA_DIR, name + ".cfg")
    with open(path, "w") as f:
        f.write("SPECIFICATION Spec\nCONSTANTS\n")
        for k, v in c.items():
            f.write(f"  {k} = {v}\n")
        for i in invariants:
            f.write(f"INVARIANT {i}\n")
        f.write("CHECK_DEADLOCK FALSE\n")
    return name


def generate(chk, label, consts, timeout=900, workers=12, simulate=None, depth=None, module="LangGen",
             invariants=("Emit",)):
    """Run LangGen (or a module extending it) with the given constants; returns the REPLAY records."""
    cfg = write_cfg(f"{module}_{label}_run", consts, invariants=invariants)
    r = vlib.run_tlc(module, cfg, timeout=timeout, workers=workers, simulate=simulate, depth=depth)
    if r.violation:
        raise vlib.ToolError(f"{module}[{label}] reported {r.violation}: " + vlib.tlc_error_trace(r.stdout)[:1500])
    chk.tlc(r, f"{module}[{label}]")
    # TLC's workers print in a nondeterministic order: fix the order of the behaviours
    return sorted(r.tagged["REPLAY"], key=lambda rep: json.dumps(rep, sort_keys=True))


def to_request(i, rep, n=None, rec=None, backends=("vm", "wasm"), sched=True, swaps=None):
    src = printer.program(rep["prog"])
    nin = len(rep["prog"]["fns"]["dsp"]["ps"])
    n = n or len(rep["expect"])
    req = {"id": i, "src": src, "n": n, "backends": list(backends), "sched": sched}
    if nin:
        req["inputs"] = [[v] for v in rep["inputs"][:n]]
    if rec:
        req["rec"] = rec
    if swaps:
        req["swaps"] = swaps
    return req


def expected_rows(rep):
    return [list(row) for row in rep["expect"]]


def decode(v):
    """harness number encoding -> float"""
    if isinstance(v, str):
        import struct
        return struct.unpack(">d", bytes.fromhex(v[1:]))[0]
    return float(v)


def same_value(exp, got):
    """spec integer vs encoded f64, compared by value (-0.0 == 0; NaN equals nothing)"""
    try:
        return decode(got) == float(exp)
    except (ValueError, TypeError):
        return False


def compare_outputs(rep, be_res):
    """Returns None when the backend result equals the specification's outputs,
    otherwise a short description."""
    st = be_res.get("status")
    if st != "ok":
        return f"status={st} {be_res.get('msg', '')[:160]} {json.dumps(be_res.get('diags', ''))[:200]}"
    exp = expected_rows(rep)
    out = be_res.get("out", [])
    if len(out) != len(exp):
        return f"{len(out)} samples instead of {len(exp)}"
    for t, (e, o) in enumerate(zip(exp, out)):
        if len(e) != len(o) or any(not same_value(a, b) for a, b in zip(e, o)):
            return f"sample {t}: expected {e}, got {o}"
    return None


# ---------------------------------------------------------------------------
# impl -> spec: random larger programs validated by LangTrace.tla
_prelude = None


def prelude(chk=None):
    """helper ASTs and signatures, taken from LangGen.tla itself"""
    global _prelude
    if _prelude is None:
        write_cfg("LangPrelude_run", {}, invariants=())
        path = os.path.join(vlib.TLA_DIR, "LangPrelude_run.cfg")
        txt = open(path).read().replace("SPECIFICATION Spec", "SPECIFICATION PSpec") + "INVARIANT PInv\n"
        open(path, "w").write(txt)
        r = vlib.run_tlc("LangPrelude", "LangPrelude_run", workers=1, timeout=120, tags=("PRELUDE",))
        _prelude = r.tagged["PRELUDE"][0]
    return _prelude["fns"], _prelude["sig"]


def norm_out(rows):
    """recorded outputs for the trace: integral values as ints (-0.0 -> 0), others stay strings"""
    out = []
    for row in rows:
        o = []
        for v in row:
            f = decode(v)
            o.append(int(f) if f == f and abs(f) < 9e15 and f == int(f) else (v if isinstance(v, str) else str(v)))
        out.append(o)
    return out


def validate_lang_traces(chk, records, label):
    """records: {id, prog, inputs, out}. Returns {id: fail-info}."""
    if not records:
        return {}
    os.makedirs(vlib.WORK, exist_ok=True)
    fails = {}
    step = 400
    for k in range(0, len(records), step):
        part = records[k:k + step]
        path = os.path.join(vlib.WORK, f"langtrace_{label}_{k}.ndjson")
        with open(path, "w") as f:
            for r in part:
                f.write(json.dumps(r) + "\n")
        r = vlib.run_tlc("LangTrace", workers=1, timeout=1200, env={"TRACE": path},
                         tags=("FAIL", "CONSUMED"), deque=True, xss=True, heap="4g")
        os.unlink(path)
        if r.violation or not r.tagged["CONSUMED"] or r.tagged["CONSUMED"][0]["n"] != len(part):
            raise vlib.ToolError(f"LangTrace did not consume the whole trace ({label}): {r.violation}\n" + r.stdout[-1500:])
        chk.tlc(r, f"LangTrace[{label}:{k}]")
        chk.count("traces_validated_against_impl", len(part))
        for f_ in r.tagged["FAIL"]:
            fails[f_["id"]] = f_
    return fails


# ---------------------------------------------------------------------------
# lock-step validation (Lockstep.tla)
def bits(v):
    """canonical string of a recorded number: bit pattern, NaN canonicalised"""
    import struct
    f = decode(v)
    if f != f:
        return "nan"
    return struct.pack(">d", f).hex()


def side(be_res, with_words=True, digest_over=16):
    """one execution as Lockstep.tla reads it; long state-word vectors travel as a digest"""
    import hashlib
    st = be_res.get("status", "missing")
    words = []
    if with_words:
        for row in be_res.get("words", []):
            if row and isinstance(row[0], str) and row[0].startswith("len"):
                words.append(list(row))      # already a digest (harness rec.words = "digest")
                continue
            b = [bits(v) for v in row]
            words.append(b if len(b) <= digest_over else
                         [f"len{len(b)}", hashlib.sha1(",".join(b).encode()).hexdigest()])
    return {"status": st, "nout": be_res.get("nout_end", be_res.get("nout")) or 0,
            "out": [[bits(v) for v in row] for row in be_res.get("out", [])],
            "words": words}


def validate_lockstep(chk, records, label):
    """records: {id, a, b, cmpwords}. Returns {id: fail-info}. Chunks are validated by parallel
    single-worker TLC runs."""
    if not records:
        return {}
    from concurrent.futures import ThreadPoolExecutor
    os.makedirs(vlib.WORK, exist_ok=True)
    step = 1500
    parts = [records[k:k + step] for k in range(0, len(records), step)]

    def one(args):
        k, part = args
        path = os.path.join(vlib.WORK, f"lockstep_{label}_{k}.ndjson")
        with open(path, "w") as f:
            for r in part:
                f.write(json.dumps(r) + "\n")
        try:
            r = vlib.run_tlc("Lockstep", workers=1, timeout=1800, env={"TRACE": path},
                             tags=("FAIL", "CONSUMED"), deque=True, xss=True, heap="3g")
        finally:
            os.unlink(path)
        if r.violation or not r.tagged["CONSUMED"] or r.tagged["CONSUMED"][0]["n"] != len(part):
            raise vlib.ToolError(f"Lockstep did not consume the whole trace ({label}): {r.violation}\n" + r.stdout[-1500:])
        return k, r

    fails = {}
    with ThreadPoolExecutor(max_workers=6) as ex:
        for k, r in ex.map(one, list(enumerate(parts))):
            chk.tlc(r, f"Lockstep[{label}:{k}]")
            chk.count("traces_validated_against_impl", len(parts[k]))
            for f_ in r.tagged["FAIL"]:
                fails[f_["id"]] = f_
    return fails

#!/usr/bin/env python3
"""prune_pins.py <property> <check output file>: remove pinned findings that the last run did not
reproduce (development helper, used after a fix in /repo)."""
import json, os, re, sys
sys.path.insert(0, os.path.dirname(os.path.abspath(__file__)))
import vlib
pid, outf = sys.argv[1], sys.argv[2]
keys = set(re.findall(r"note: listed finding (\S+) not reproduced", open(outf).read()))
kf = os.path.join(vlib.VERIF, "KNOWN_FINDINGS.txt")
lines = open(kf).read().split("\n")
keep = []
removed = 0
for l in lines:
    m = re.match(r"known: property=(\S+) key=(\S+) input=(\S+) ::", l)
    if m and m.group(1) == pid and m.group(2) in keys:
        p = os.path.join(vlib.VERIF, m.group(3))
        if os.path.exists(p):
            os.unlink(p)
        removed += 1
        continue
    keep.append(l)
open(kf, "w").write("\n".join(keep))
print("removed", removed)

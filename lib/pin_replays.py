#!/usr/bin/env python3
"""pin_replays.py <property>: turn every replay of the last run of a check into a pinned finding
(development helper for properties whose unchanged tree has many failing specific inputs)."""
import glob, json, os, re, sys
sys.path.insert(0, os.path.dirname(os.path.abspath(__file__)))
import vlib
pid = sys.argv[1]
d = os.path.join(vlib.VERIF, "findings", pid)
os.makedirs(d, exist_ok=True)
kf = os.path.join(vlib.VERIF, "KNOWN_FINDINGS.txt")
cur = open(kf).read()
n = len([f for f in os.listdir(d) if f.startswith("auto_")])
ev = os.path.join(vlib.VERIF, "evidence", pid + ".json")
t_ev = os.path.getmtime(ev) if os.path.exists(ev) else 0
for f in sorted(glob.glob(os.path.join(vlib.REPLAYS, pid, "*.json"))):
    if os.path.getmtime(f) < t_ev - 7200:
        continue        # a replay left by an older run (e.g. with a seeded change applied): not from the run being pinned
    r = json.load(open(f))
    key = r["key"]
    if f"property={pid} key={key} " in cur:
        continue
    what = re.sub(r"\s+", " ", r["what"])[:260].replace(" :: ", " : ")
    n += 1
    case = dict(r["case"], what=what, key=key)
    json.dump(case, open(os.path.join(d, f"auto_{n:03d}.json"), "w"), indent=1)
    with open(kf, "a") as k:
        k.write(f"known: property={pid} key={key} input=findings/{pid}/auto_{n:03d}.json :: {what}\n")
print("pinned up to", n)

#!/usr/bin/env python3
"""Render the table of seeded breaking changes (seeded/*/meta.json) into DESIGN.md section 11.6."""
import glob, json, os, re
V = os.path.dirname(os.path.dirname(os.path.abspath(__file__)))
rows = ["| id | property | the change | needs, to manifest | caught by |", "|---|---|---|---|---|"]
def cell(t, n):
    t = re.sub(r"\s+", " ", str(t)).replace("|", "\\|")
    return t if len(t) <= n else t[:n - 1] + "…"
for f in sorted(glob.glob(os.path.join(V, "seeded", "*", "meta.json"))):
    m = json.load(open(f))
    cr = m.get("check_run", {})
    rows.append(f"| {os.path.basename(os.path.dirname(f))} | {m.get('property')} | {cell(m.get('breaks') or m.get('summary'), 330)} | "
                f"{cell(m.get('needs'), 260)} | `{cr.get('cmd', '')}`: {cell(cr.get('result'), 300)} |")
table = "\n".join(rows)
p = os.path.join(V, "DESIGN.md")
s = open(p).read()
if "SEEDED_TABLE" in s:
    s = s.replace("SEEDED_TABLE", "<!-- seeded:begin -->\n" + table + "\n<!-- seeded:end -->")
else:
    s = re.sub(r"<!-- seeded:begin -->.*?<!-- seeded:end -->", lambda _: "<!-- seeded:begin -->\n" + table + "\n<!-- seeded:end -->", s, flags=re.S)
open(p, "w").write(s)
print(len(rows) - 2, "seeded changes")

#!/usr/bin/env python3
"""seedmeta.py <seeded dir> <confirm log file> <check cmd> <result text>: merge my confirmation and the check result into meta.json"""
import json, os, sys
d, log, cmd, result = sys.argv[1:5]
p = os.path.join("/verif/seeded", d, "meta.json")
m = json.load(open(p))
m["origin"] = "fresh sub-agent given only the property text and its own scratch worktree of /repo"
if os.path.exists(log):
    m["confirmed_by_me"] = {"how": "scratch worktree: existing suite with the change; demonstration with and without the change (git apply -R / git apply)",
                            "log": [l.rstrip() for l in open(log) if l.strip()]}
m["check_run"] = {"cmd": cmd, "how": "git -C /repo apply patch.diff; run; git -C /repo checkout -- .", "result": result}
json.dump(m, open(p, "w"), indent=1)

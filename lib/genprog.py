"""Seeded random generator of larger core-language programs in the JSON AST of
Lang.tla (impl -> spec direction: the recorded runs are validated by
LangTrace.tla).  Typed by construction; stays inside the clean fragment
(DESIGN.md §5): no stateful construct inside `if` arms or lambdas, no
assignment inside lambdas, no projection as a function's tail expression."""
import json

TYPES = ("N", "P", "F")


class Gen:
    def __init__(self, rng, prelude, sig, max_nodes=40, lits=(0, 1, 2, 3, 5), allow_state=True):
        self.rng = rng
        self.prelude = prelude
        self.sig = sig
        self.max_nodes = max_nodes
        self.lits = lits
        self.nv = 0
        self.used = set()
        self.allow_state = allow_state
        self.userfns = {}      # generated helper functions: name -> (args, ret, stateful)
        self.tuples = True     # tuple-valued temporaries (projection of calls, tuple lets); off for WASM corpora
        self.records = True    # records {p, q} (fourth session)
        self.match = False     # numeric match: outside C02's list of constructs; on for C01 / C03 / C18 corpora
        self.closures = False  # closures / higher-order calls: covered exhaustively at small sizes by LangGen;
        #                        larger random uses run into pinned findings (captured destructured variables, ...)

    def fresh(self):
        self.nv += 1
        return f"w{self.nv}"

    # scope: dict n/p/f -> list of names, asg -> list, slf -> "none"/"N", st -> bool
    def expr(self, ty, sc, budget):
        r = self.rng
        if ty == "N":
            return self.num(sc, budget)
        if ty == "P":
            return self.pair(sc, budget)
        if ty == "R":
            return self.rec(sc, budget)
        return self.fun(sc, budget)

    def callable_fns(self, ret, sc):
        out = []
        for f, s in self.sig.items():
            if "F" in s["args"] and not self.closures:
                continue
            if any(t not in ("N", "P", "F", "R") for t in s["args"]) or ("R" in s["args"] + [s["ret"]] and not self.records):
                continue
            if f == "sumto":        # (its argument may be large: the recursion is bounded, but keep programs cheap)
                continue
            if s["ret"] == ret and (sc["st"] or not s["st"]):
                out.append((f, s["args"]))
        for f, (args, r_, st) in self.userfns.items():
            if r_ == ret and (sc["st"] or not st):
                out.append((f, args))
        return out

    def call(self, f, args, sc, budget):
        self.used.add(f)
        n = max(1, len(args))
        return {"k": "call", "f": f, "as": [self.expr(t, sc, (budget - 1) // n) for t in args]}

    def body(self, sc, budget):
        """function body: a chain of let / tuple-let / assignment statements, then an expression
        (blocks nested inside expressions are outside the clean fragment of the printer)"""
        r = self.rng
        if budget > 4 and r.random() < 0.6:
            k = r.choice(["let", "let", "asg"] + (["lett"] if self.tuples else []) + (["letf"] if self.closures else [])
                         + (["letr", "asgf"] if self.records else []))
            if k == "letr":
                x = self.fresh()
                a = self.rec(sc, budget // 3)
                return {"k": "let", "x": x, "a": a,
                        "b": self.body(dict(sc, r=sc.get("r", []) + [x]), budget - budget // 3)}
            if k == "asgf" and sc.get("r"):
                x = r.choice(sc["r"])
                return {"k": "asgf", "x": x, "n": r.choice(["p", "q"]), "a": self.num(sc, budget // 3),
                        "b": self.body(sc, budget - budget // 3)}
            if k == "let":
                x = self.fresh()
                a = self.num(sc, budget // 3)
                return {"k": "let", "x": x, "a": a,
                        "b": self.body(dict(sc, n=sc["n"] + [x], asg=sc["asg"] + [x]), budget - budget // 3)}
            if k == "lett":
                x, y = self.fresh(), self.fresh()
                a = self.pair(sc, budget // 3)
                return {"k": "lett", "xs": [x, y], "a": a,
                        "b": self.body(dict(sc, n=sc["n"] + [x, y]), budget - budget // 3)}
            if k == "letf":
                x = self.fresh()
                a = self.fun(sc, budget // 3)
                b = self.body(dict(sc, f=sc["f"] + [x]), budget - budget // 3)
                # a lambda that is never applied keeps an unresolved parameter type (pinned finding)
                return {"k": "let", "x": x, "a": a, "b": b} if refers(b, x) else b
            if k == "asg" and sc["asg"]:
                x = r.choice(sc["asg"])
                return {"k": "asg", "x": x, "a": self.num(sc, budget // 3), "b": self.body(sc, budget - budget // 3)}
        return self.num(sc, budget)

    def num(self, sc, budget):
        r = self.rng
        leaves = [lambda: {"k": "lit", "v": r.choice(self.lits)}, lambda: {"k": "now"}]
        if sc["n"]:
            leaves += [lambda: {"k": "var", "x": r.choice(sc["n"])}] * 2
        if sc["slf"] == "N":
            leaves.append(lambda: {"k": "self", "z": 0})
        if budget <= 1:
            return r.choice(leaves)()
        nost = dict(sc, st=False)
        prods = ["bin"] * 5 + ["neg", "call", "call", "cmp"]
        if not sc.get("noif") and self.tuples:  # no tuple-valued temporaries inside a tuple literal (pinned finding)
            prods.append("proj")
        if self.closures:
            prods.append("app")
        if self.records and not sc.get("noif"):
            prods += ["fld"] + (["match"] if self.match else [])
        if not sc.get("noif"):
            prods.append("if")
        if sc["st"]:
            prods += ["mem", "delay", "call"]
        k = r.choice(prods)
        if k == "bin":
            op = r.choice(["+", "+", "-", "*", "%"])
            a = self.num(sc, budget // 2)
            if op == "%":
                return {"k": "bin", "op": "%", "a": a, "b": {"k": "lit", "v": r.choice([2, 3, 5, 7])}}
            return {"k": "bin", "op": op, "a": a, "b": self.num(sc, budget // 2)}
        if k == "cmp":
            op = r.choice(["<", "<=", ">", ">=", "==", "!=", "&&", "||"])
            return {"k": "bin", "op": op, "a": self.num(sc, budget // 2), "b": self.num(sc, budget // 2)}
        if k == "neg":
            return {"k": "neg", "a": self.num(sc, budget - 1)}
        if k == "if":
            return {"k": "if", "c": self.num(sc, budget // 3), "t": self.num(sc, budget // 3),
                    "e": self.num(sc, budget // 3)}
        if k == "fld":
            return {"k": "fld", "a": self.rec(sc, budget - 1, for_fld=True), "n": r.choice(["p", "q"])}
        if k == "match":
            return {"k": "match", "s": {"k": "bin", "op": "%", "a": self.num(sc, budget // 4), "b": {"k": "lit", "v": 3}},
                    "keys": [0, 2], "arms": [self.num(nost, budget // 4), self.num(nost, budget // 4)],
                    "d": self.num(nost, budget // 4)}
        if k == "mem":
            return {"k": "mem", "a": self.num(sc, budget - 1)}
        if k == "delay":
            n = r.choice([2, 3, 4, 6])
            return {"k": "delay", "n": n, "a": self.num(sc, budget - 2), "t": {"k": "lit", "v": r.randint(1, n - 1)}}
        if k == "call":
            c = self.callable_fns("N", sc)
            if c:
                f, args = r.choice(c)
                return self.call(f, args, sc, budget)
            return r.choice(leaves)()
        if k == "proj":
            src = self.pair(sc, budget - 1, for_proj=True)
            if src is None:
                return r.choice(leaves)()
            return {"k": "proj", "a": src, "i": r.choice([0, 1])}
        if k == "app":
            return {"k": "app", "f": self.fun(sc, budget // 2, literal=False), "as": [self.num(sc, budget // 2)]}
        if k == "let":
            x = self.fresh()
            a = self.num(sc, budget // 2)
            sc2 = dict(sc, n=sc["n"] + [x], asg=sc["asg"] + [x])
            return {"k": "let", "x": x, "a": a, "b": self.num(sc2, budget // 2)}
        if k == "lett":
            x, y = self.fresh(), self.fresh()
            a = self.pair(sc, budget // 2)
            sc2 = dict(sc, n=sc["n"] + [x, y])
            return {"k": "lett", "xs": [x, y], "a": a, "b": self.num(sc2, budget // 2)}
        if k == "letf":
            x = self.fresh()
            a = self.fun(sc, budget // 2)
            sc2 = dict(sc, f=sc["f"] + [x])
            return {"k": "let", "x": x, "a": a, "b": self.num(sc2, budget // 2)}
        if k == "asg" and sc["asg"]:
            x = r.choice(sc["asg"])
            return {"k": "asg", "x": x, "a": self.num(sc, budget // 2), "b": self.num(sc, budget // 2)}
        return r.choice(leaves)()

    def pair(self, sc, budget, for_proj=False):
        r = self.rng
        opts = [] if for_proj else ["tup", "tup"]
        if sc["p"]:
            opts += ["var", "var"]
        if budget > 2 and self.callable_fns("P", sc):
            opts += ["call"]
        if not opts:
            return None
        k = r.choice(opts)
        if k == "var":
            return {"k": "var", "x": r.choice(sc["p"])}
        if k == "call":
            c = self.callable_fns("P", sc)
            if c:
                f, args = r.choice(c)
                return self.call(f, args, sc, budget)
        if k == "ifp":
            nost = dict(sc, st=False)
            return {"k": "if", "c": self.num(sc, budget // 3), "t": self.pair(nost, budget // 3),
                    "e": self.pair(nost, budget // 3)}
        return {"k": "tup", "es": [self.tupel(sc, max(1, (budget - 1) // 2)), self.tupel(sc, max(1, (budget - 1) // 2))]}

    def rec(self, sc, budget, for_fld=False):
        """record {p, q}: a variable, mkr(..), a literal written q first, an update of a variable"""
        r = self.rng
        opts = ["mkr"] + ([] if for_fld else ["lit", "lit"])
        if sc.get("r"):
            opts += ["var", "var", "upd"]
        k = r.choice(opts)
        if k == "var":
            return {"k": "var", "x": r.choice(sc["r"])}
        if k == "mkr":
            self.used.add("mkr")
            return {"k": "call", "f": "mkr", "as": [self.num(sc, max(1, budget - 1))]}
        if k == "upd":
            return {"k": "recupd", "a": {"k": "var", "x": r.choice(sc["r"])},
                    "fs": [{"n": r.choice(["p", "q"]), "a": self.num(sc, max(1, budget - 1))}]}
        h = max(1, (budget - 1) // 2)
        return {"k": "rec", "fs": [{"n": "q", "a": self.tupel(sc, h)}, {"n": "p", "a": self.tupel(sc, h)}]}

    def tupel(self, sc, budget):
        """tuple element: no `if` anywhere below (pinned finding if_in_tuple), the dsp input not
        as a bare element (pinned finding wasm_proj_of_input_tuple)"""
        e = self.num(dict(sc, noif=not self.tuples), budget)   # tuple temporaries + if: pinned WASM finding
        if e["k"] == "var" and e["x"] == sc.get("inp"):
            return {"k": "bin", "op": "+", "a": e, "b": {"k": "lit", "v": 0}}
        return e

    def fun(self, sc, budget, literal=True):
        r = self.rng
        opts = (["lam", "lam"] if literal else []) + ["fnref", "mk"]
        if sc["f"]:
            opts += ["var", "var"]
        k = r.choice(opts)
        if k == "var":
            return {"k": "var", "x": r.choice(sc["f"])}
        if k == "fnref":
            self.used.add("dbl")
            return {"k": "var", "x": "dbl"}
        if k == "mk":
            self.used.add("mk")
            return {"k": "call", "f": "mk", "as": [self.num(sc, max(1, budget - 1))]}
        x = self.fresh()
        body_sc = dict(sc, n=sc["n"] + [x], asg=[], slf="none", st=False)
        return {"k": "lam", "ps": [x], "b": self.num(body_sc, max(1, budget - 1))}


def refers(e, x):
    if isinstance(e, dict):
        if e.get("k") == "var" and e.get("x") == x:
            return True
        return any(refers(v, x) for v in e.values())
    if isinstance(e, list):
        return any(refers(v, x) for v in e)
    return False


def collect_calls(e, acc):
    if isinstance(e, dict):
        if e.get("k") == "call":
            acc.add(e["f"])
        if e.get("k") == "var":
            acc.add(e["x"])
        for v in e.values():
            collect_calls(v, acc)
    elif isinstance(e, list):
        for v in e:
            collect_calls(v, acc)


def calls(e, name):
    acc = set()
    collect_calls(e, acc)
    return name in acc


def tail_proj(e):
    k = e["k"]
    if k == "proj":
        return True
    if k == "fld":
        return True
    if k in ("let", "lett", "asg", "asgf"):
        return tail_proj(e["b"])
    if k == "if":
        return tail_proj(e["t"]) or tail_proj(e["e"])
    if k == "match":
        return tail_proj(e["d"]) or any(tail_proj(a) for a in e["arms"])
    return False


def uses_self(e):
    if isinstance(e, dict):
        if e.get("k") == "self":
            return True
        if e.get("k") == "lam":
            return False
        return any(uses_self(v) for v in e.values())
    if isinstance(e, list):
        return any(uses_self(v) for v in e)
    return False


def no_tail_proj(e):
    """a function's result must not be a bare projection (pinned finding): add 0 at the tail"""
    if e["k"] in ("let", "lett", "asg", "asgf"):
        return dict(e, b=no_tail_proj(e["b"]))
    if e["k"] == "if":
        return dict(e, t=no_tail_proj(e["t"]), e=no_tail_proj(e["e"]))
    if e["k"] == "match":
        return dict(e, d=no_tail_proj(e["d"]), arms=[no_tail_proj(a) for a in e["arms"]])
    return {"k": "bin", "op": "+", "a": e, "b": {"k": "lit", "v": 0}} if e["k"] in ("proj", "fld") else e


def closure(used, prelude):
    out = set(used)
    if "nest" in out:
        out |= {"counter", "lag"}
    return out


def random_program(rng, prelude, sig, max_nodes=40, tuples=True, match=False, records=None):
    g = Gen(rng, prelude, sig, max_nodes)
    g.tuples = tuples
    g.match = match
    # record-valued temporaries are aggregates like tuples: off where tuple temporaries are off (corpora that compare
    # the WASM runtime word for word: pinned C01 findings about aggregate temporaries)
    g.records = tuples if records is None else records
    fns = {}
    nuser = rng.randint(0, 2)
    for i in range(nuser):
        name = f"u{i + 1}"
        slf = rng.choice(["none", "N"])
        sc = {"n": ["x"], "p": [], "f": [], "asg": [], "slf": slf, "st": True}
        body = no_tail_proj(g.body(sc, rng.randint(3, max_nodes // 2)))
        fns[name] = {"ps": ["x"], "self": uses_self(body), "b": body}
        g.userfns[name] = (["N"], "N", True)
    use_input = rng.random() < 0.5
    sc = {"n": ["x"] if use_input else [], "p": [], "f": [], "asg": [], "slf": "none", "st": True,
          "inp": "x" if use_input else None}
    nout = rng.choice([1, 1, 2])
    if nout == 1:
        body = no_tail_proj(g.body(sc, rng.randint(4, max_nodes)))
    else:
        body = {"k": "tup", "es": [g.tupel(sc, max_nodes // 2), g.tupel(sc, max_nodes // 2)]}
    fns["dsp"] = {"ps": ["x"] if use_input else [], "self": False, "b": body}
    # a user function that is never called keeps unresolved parameter types (pinned finding): drop it
    reach, todo = set(), ["dsp"]
    while todo:
        f = todo.pop()
        if f in reach or f not in fns:
            continue
        reach.add(f)
        todo += [n for n in fns if n not in reach and calls(fns[f]["b"], n)]
    fns = {n: f for n, f in fns.items() if n in reach}
    used = set()
    for f in fns.values():
        collect_calls(f["b"], used)
    for f in closure(used, prelude):
        if f in prelude:
            fns[f] = prelude[f]
    globals_ = []
    return {"nout": nout, "globals": globals_, "fns": fns}


def count_nodes(e):
    if isinstance(e, dict):
        return (1 if "k" in e else 0) + sum(count_nodes(v) for v in e.values())
    if isinstance(e, list):
        return sum(count_nodes(v) for v in e)
    return 0

"""Source-to-source transformations of C16 on the JSON AST: consistent renaming, and type
annotations that agree with the (simple) types of the core fragment."""
import copy

SIG_RET = {"counter": "N", "lag": "N", "acc7": "N", "pacc": "P", "dl": "N", "nest": "N", "dbl": "N", "apply": "N",
           "mk": "F", "swap": "P", "pick": "N", "mkr": "R", "sumto": "N"}
SIG_ARGS = {"counter": ["N"], "lag": ["N"], "acc7": ["N"], "pacc": ["N"], "dl": ["N"], "nest": ["N"], "dbl": ["N"],
            "apply": ["F", "N"], "mk": ["N"], "swap": ["P"], "f": ["N"], "pick": ["R"], "mkr": ["N"], "sumto": ["N"]}
TY = {"N": "float", "P": "(float,float)", "F": "(float)->float", "R": "{p:float, q:float}", "A": "[float]"}


def rename_expr(e, s):
    if isinstance(e, list):
        return [rename_expr(x, s) for x in e]
    if not isinstance(e, dict):
        return e
    e = {k: rename_expr(v, s) for k, v in e.items()}
    k = e.get("k")
    if k in ("var", "let", "asg"):
        e["x"] = s.get(e["x"], e["x"])
    if k == "lett":
        e["xs"] = [s.get(x, x) for x in e["xs"]]
    if k == "lam":
        e["ps"] = [s.get(x, x) for x in e["ps"]]
    if k == "call":
        e["f"] = s.get(e["f"], e["f"])
    # field names are user-chosen identifiers as well
    if k in ("fld", "asgf"):
        e["n"] = s.get(e["n"], e["n"])
    if k == "asgf":
        e["x"] = s.get(e["x"], e["x"])
    if k in ("rec", "recupd"):
        e["fs"] = [dict(f, n=s.get(f["n"], f["n"])) for f in e["fs"]]
    return e


def unshadow_expr(e, scope, counter):
    """alpha-rename every let / tuple-let / lambda binder that rebinds a name already in scope to a
    name used nowhere else; the meaning is unchanged under lexical scoping. scope: name -> current name"""
    if isinstance(e, list):
        return [unshadow_expr(x, scope, counter) for x in e]
    if not isinstance(e, dict):
        return e
    k = e.get("k")

    def fresh(x):
        counter[0] += 1
        return f"{x}_s{counter[0]}"
    if k == "var":
        return dict(e, x=scope.get(e["x"], e["x"]))
    if k == "let":
        a = unshadow_expr(e["a"], scope, counter)
        nx = fresh(e["x"]) if e["x"] in scope else e["x"]
        inner = dict(scope)
        inner[e["x"]] = nx
        return dict(e, x=nx, a=a, b=unshadow_expr(e["b"], inner, counter))
    if k == "lett":
        a = unshadow_expr(e["a"], scope, counter)
        inner = dict(scope)
        nxs = []
        for x in e["xs"]:
            nx = fresh(x) if x in scope else x
            inner[x] = nx
            nxs.append(nx)
        return dict(e, xs=nxs, a=a, b=unshadow_expr(e["b"], inner, counter))
    if k == "asg":
        return dict(e, x=scope.get(e["x"], e["x"]), a=unshadow_expr(e["a"], scope, counter),
                    b=unshadow_expr(e["b"], scope, counter))
    if k == "lam":
        inner = dict(scope)
        nps = []
        for x in e["ps"]:
            nx = fresh(x) if x in scope else x
            inner[x] = nx
            nps.append(nx)
        return dict(e, ps=nps, b=unshadow_expr(e["b"], inner, counter))
    return {kk: unshadow_expr(v, scope, counter) for kk, v in e.items()}


def unshadow_prog(prog):
    out = copy.deepcopy(prog)
    counter = [0]
    out["fns"] = {f: dict(d, b=unshadow_expr(d["b"], {p: p for p in d["ps"]}, counter)) for f, d in prog["fns"].items()}
    return out, counter[0]


def user_names(prog):
    names = []

    def add(n):
        if n not in names and n != "dsp":
            names.append(n)
    for f, d in prog["fns"].items():
        add(f)
        for p in d["ps"]:
            add(p)

        def walk(e):
            if isinstance(e, list):
                for x in e:
                    walk(x)
            elif isinstance(e, dict):
                if e.get("k") == "let":
                    add(e["x"])
                if e.get("k") == "lett":
                    for x in e["xs"]:
                        add(x)
                if e.get("k") == "lam":
                    for x in e["ps"]:
                        add(x)
                if e.get("k") in ("fld", "asgf"):
                    add(e["n"])
                if e.get("k") in ("rec", "recupd"):
                    for f_ in e["fs"]:
                        add(f_["n"])
                for v in e.values():
                    walk(v)
        walk(d["b"])
    for g in prog.get("globals", []):
        add(g["x"])
    return names


def rename_prog(prog, sigma):
    s = {k: v for k, v in sigma.items() if k != "dsp"}
    out = copy.deepcopy(prog)
    import re

    def rty(t):     # identifiers inside a type annotation (field names of record types)
        return re.sub(r"[A-Za-z_][A-Za-z_0-9]*", lambda m: m.group(0) if m.group(0) == "float" else s.get(m.group(0), m.group(0)), t) if t else t
    out["fns"] = {s.get(f, f): dict(d, ps=[s.get(p, p) for p in d["ps"]], b=rename_expr(d["b"], s),
                                    **({"pty": [rty(t) for t in d["pty"]]} if d.get("pty") else {}))
                  for f, d in prog["fns"].items()}
    out["globals"] = [{"x": s.get(g["x"], g["x"]), "a": rename_expr(g["a"], s)} for g in prog.get("globals", [])]
    return out


def typeof(e, env):
    k = e["k"]
    if k in ("lit", "now", "sr", "neg", "bin", "mem", "delay", "proj", "app"):
        return "N"
    if k == "self":
        return "P" if isinstance(e.get("z"), list) else "N"
    if k == "var":
        return env.get(e["x"], "F" if e["x"] in SIG_RET else "N")
    if k == "tup":
        return "P"
    if k in ("rec", "recupd"):
        return "R"
    if k == "arr":
        return "A"
    if k == "match":
        return typeof(e["d"], env)
    if k == "asgf":
        return typeof(e["b"], env)
    if k == "lam":
        return "F"
    if k == "call":
        return SIG_RET.get(e["f"], "N")
    if k == "if":
        return typeof(e["t"], env)
    if k in ("let", "lett", "asg"):
        return typeof(e["b"], bind(e, env))
    return "N"


def bind(e, env):
    env = dict(env)
    if e["k"] == "let":
        env[e["x"]] = typeof(e["a"], env)
    if e["k"] == "lett":
        for x in e["xs"]:
            env[x] = "N"
    return env


def annotate_expr(e, env):
    if isinstance(e, list):
        return [annotate_expr(x, env) for x in e]
    if not isinstance(e, dict):
        return e
    k = e.get("k")
    if k == "let":
        ty = typeof(e["a"], env)
        return dict(e, ty=TY[ty], a=annotate_expr(e["a"], env), b=annotate_expr(e["b"], bind(e, env)))
    if k == "lett":
        return dict(e, a=annotate_expr(e["a"], env), b=annotate_expr(e["b"], bind(e, env)))
    if k == "lam":
        env2 = dict(env, **{p: "N" for p in e["ps"]})
        return dict(e, pty=["float"] * len(e["ps"]), b=annotate_expr(e["b"], env2))
    return {kk: annotate_expr(v, env) for kk, v in e.items()}


def annotate_prog(prog):
    out = copy.deepcopy(prog)
    for f, d in out["fns"].items():
        if f == "dsp":
            argt = ["N"] * len(d["ps"])
        else:
            argt = SIG_ARGS.get(f, ["N"] * len(d["ps"]))
        env = dict(zip(d["ps"], argt))
        d["pty"] = [TY[t] for t in argt]
        d["b"] = annotate_expr(d["b"], env)
    return out

#!/bin/bash
# confirm2.sh <seeded dir name, e.g. C04-d> <demo file name (in seeded/<dir>/demo)> [package] [tests dir]:
# confirm a seeded change in ONE reusable scratch worktree /tmp/wt_confirm (development helper; not used by any
# check): suite with the change, demo with and without it. The worktree is reset to /repo's HEAD first.
D=$1; DEMO=$2; PKG=${3:-mimium-test}; TDIR=${4:-crates/lib/mimium-test/tests}
S=/verif/seeded/$D; WT=/tmp/wt_confirm; T=$(basename $DEMO .rs)
[ -d $WT ] || git -C /repo worktree add --detach $WT HEAD >/dev/null 2>&1
cd $WT || exit 2
git checkout -q -- . && git clean -fdq -e target && git checkout -q --detach $(git -C /repo rev-parse HEAD)
export CARGO_TARGET_DIR=$WT/target
git apply $S/patch.diff || { echo "patch does not apply"; exit 2; }
echo "== diff: $(git diff --stat | tail -1)"
echo "suite_with_change: $(cargo nextest run --workspace --no-fail-fast --test-threads 8 --offline 2>&1 | grep -E '^\s+Summary' | tail -1)"
mkdir -p $TDIR; cp $S/demo/$DEMO $TDIR/
echo "demo_with_change: $(cargo test -p $PKG --test $T --offline 2>&1 | grep -E '^test result' | tail -1)"
git apply -R $S/patch.diff
echo "demo_without_change: $(cargo test -p $PKG --test $T --offline 2>&1 | grep -E '^test result' | tail -1)"
rm -f $TDIR/$DEMO
git status --short | head -5

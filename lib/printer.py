"""AST (JSON, Appendix A of DESIGN.md) -> mimium source text. The only place
where concrete syntax is produced for generated programs; used by both
binding directions."""


# printing style (C16 transformations): extra redundant parentheses, layout noise inside brackets
STYLE = {"parens": False, "layout": False}


def _wrap(txt):
    if STYLE["parens"]:
        txt = f"(({txt}))"
    return txt


def _open():
    return "( /* c */\n " if STYLE["layout"] else "("


def _close():
    return "\n // end\n )" if STYLE["layout"] else ")"


def _comma():
    # (the comment stands before the comma: a comment that follows a comma is a pinned formatter finding of C14)
    return " /* , */,\n   " if STYLE["layout"] else ", "


def _ann(name, ty):
    return f"{name}:{ty}" if ty else name


def _blk(e, ind):
    """print e as the contents of a block (statements separated by newlines)"""
    pad = "  " * ind
    k = e["k"]
    if k == "let":
        return f"{pad}let {_ann(e['x'], e.get('ty'))} = {expr(e['a'], ind)}\n" + _blk(e["b"], ind)
    if k == "lett":
        return f"{pad}let ({', '.join(e['xs'])}) = {expr(e['a'], ind)}\n" + _blk(e["b"], ind)
    if k == "letr":
        return f"{pad}let {{{', '.join(e['xs'])}}} = {expr(e['a'], ind)}\n" + _blk(e["b"], ind)
    if k == "asg":
        return f"{pad}{e['x']} = {expr(e['a'], ind)}\n" + _blk(e["b"], ind)
    if k == "asgf":
        return f"{pad}{e['x']}.{e['n']} = {expr(e['a'], ind)}\n" + _blk(e["b"], ind)
    return pad + expr(e, ind)


def block(e, ind):
    return "{\n" + _blk(e, ind + 1) + "\n" + "  " * ind + "}"


def expr(e, ind=0):
    k = e["k"]
    if k == "lit":
        v = e["v"]
        return str(v) if v >= 0 else f"(0 - {-v})"
    if k == "flit":
        return e["s"]
    if k == "var":
        return e["x"]
    if k == "now":
        return "now"
    if k == "sr":
        return "samplerate"
    if k == "self":
        return "self"
    if k == "neg":
        return f"(-{expr(e['a'], ind)})"
    if k == "bin":
        return _wrap(f"({expr(e['a'], ind)} {e['op']} {expr(e['b'], ind)})")
    if k == "if":
        return f"(if ({expr(e['c'], ind)}) {block(e['t'], ind)} else {block(e['e'], ind)})"
    if k == "asg":
        # a block in expression position that *starts* with `x = ...` is read as a record literal {x = ...}
        # by the parser (is_record_expr): the first assignment is parenthesised
        pad = "  " * (ind + 1)
        return "{\n" + f"{pad}({e['x']} = {expr(e['a'], ind + 1)})\n" + _blk(e["b"], ind + 1) + "\n" + "  " * ind + "}"
    if k in ("let", "lett", "letr"):
        return block(e, ind)
    if k == "asgf":
        # (a block that starts with `x.n = ...` is not mistaken for a record literal: `.` follows the name)
        return block(e, ind)
    if k == "recupd":
        return "{ " + expr(e["a"], ind) + " <- " + ", ".join(f"{f['n']} = {expr(f['a'], ind)}" for f in e["fs"]) + " }"
    if k == "arr":
        return "[" + ", ".join(expr(x, ind) for x in e["es"]) + "]"
    if k == "idx":
        a = e["a"]
        base = expr(a, ind)
        if a["k"] not in ("var", "call", "app"):
            base = f"({base})"
        return f"{base}[{expr(e['i'], ind)}]"
    if k == "len":
        return f"len({expr(e['a'], ind)})"
    if k == "match":
        pad = "  " * (ind + 1)
        arms = "".join(f"{pad}{key} => {block(arm, ind + 1)}\n" for key, arm in zip(e["keys"], e["arms"]))
        return f"(match ({expr(e['s'], ind)}) {{\n{arms}{pad}_ => {block(e['d'], ind + 1)}\n{'  ' * ind}}})"
    if k == "tup":
        return _open() + _comma().join(expr(x, ind) for x in e["es"]) + _close()
    if k == "proj":
        a = e["a"]
        base = expr(a, ind)
        if a["k"] not in ("var", "call", "proj", "app"):
            base = f"({base})"
        return f"{base}.{e['i']}"
    if k == "rec":
        return "{" + ", ".join(f"{f['n']} = {expr(f['a'], ind)}" for f in e["fs"]) + "}"
    if k == "fld":
        a = e["a"]
        base = expr(a, ind)
        if a["k"] not in ("var", "call", "fld", "app"):
            base = f"({base})"
        return f"{base}.{e['n']}"
    if k == "lam":
        ps = ", ".join(_ann(p_, t_) for p_, t_ in zip(e["ps"], e.get("pty") or [None] * len(e["ps"])))
        return f"|{ps}| {block(e['b'], ind)}" if e["ps"] else f"| | {block(e['b'], ind)}"
    if k == "app":
        f = e["f"]
        fs = expr(f, ind) if f["k"] == "var" else f"({expr(f, ind)})"
        return f"{fs}" + _open() + _comma().join(expr(x, ind) for x in e["as"]) + _close()
    if k == "call":
        if e.get("pipe") and len(e["as"]) == 1:
            return f"({expr(e['as'][0], ind)} |> {e['f']})"
        return f"{e['f']}" + _open() + _comma().join(expr(x, ind) for x in e["as"]) + _close()
    if k == "mem":
        return f"mem({expr(e['a'], ind)})"
    if k == "delay":
        return f"delay({e['n']}, {expr(e['a'], ind)}, {expr(e['t'], ind)})"
    if k == "raw":
        return e["s"]
    if k == "splice":
        return f"$({mexpr(e['m'], ind)})"
    if k == "macroapp":
        return f"{e['f']}!(" + ", ".join(mexpr(a, ind) for a in e["as"]) + ")"
    raise ValueError(f"printer: unknown node {k}")


def mexpr(m, ind=0):
    """macro-stage expressions of Staging.tla"""
    k = m["k"]
    if k == "mq":
        return "`" + block(m["t"], ind)
    if k == "mv":
        return m["x"]
    if k == "mfn":
        return m["f"]
    if k == "mnum":
        return str(m["v"]) if m["v"] >= 0 else f"(0 - {-m['v']})"
    if k == "mflit":
        return m["s"]
    if k == "mbin":
        return f"({mexpr(m['a'], ind)} {m['op']} {mexpr(m['b'], ind)})"
    if k == "mif":
        pad = "  " * (ind + 1)
        return (f"if ({mexpr(m['c'], ind)}) {{\n{pad}{mexpr(m['t'], ind + 1)}\n{'  ' * ind}}} else "
                f"{{\n{pad}{mexpr(m['e'], ind + 1)}\n{'  ' * ind}}}")
    if k == "mlet":
        pad = "  " * (ind + 1)
        return f"{{\n{pad}let {m['x']} = {mexpr(m['a'], ind + 1)}\n{pad}{mexpr(m['b'], ind + 1)}\n{'  ' * ind}}}"
    if k == "mcall":
        return f"{m['f']}(" + ", ".join(mexpr(a, ind) for a in m["as"]) + ")"
    if k == "mlift":
        return f"lift_f({mexpr(m['a'], ind)})"
    raise ValueError(f"printer: unknown macro node {k}")


def _refs(e, acc):
    if isinstance(e, dict):
        if e.get("k") == "call":
            acc.add(e["f"])
        if e.get("k") == "var":
            acc.add(e["x"])
        for v in e.values():
            _refs(v, acc)
    elif isinstance(e, list):
        for v in e:
            _refs(v, acc)


def json_names(e):
    """every string that occurs as a value anywhere in a node (over-approximates the names used)"""
    acc = set()

    def go(v):
        if isinstance(v, dict):
            for x in v.values():
                go(x)
        elif isinstance(v, list):
            for x in v:
                go(x)
        elif isinstance(v, str):
            acc.add(v)
    go(e)
    return acc


def fn_order(fns):
    """definitions before uses (mimium resolves top-level names in order); dsp last"""
    deps = {}
    for n, f in fns.items():
        acc = set()
        _refs(f["b"], acc)
        deps[n] = sorted(d for d in acc if d in fns and d != n)
    out = []

    def visit(n, stack=()):
        if n in out or n in stack:
            return
        for d in deps[n]:
            visit(d, stack + (n,))
        out.append(n)
    for n in sorted(fns, key=lambda x: (x == "dsp", x)):
        visit(n)
    return out


def program(p):
    """functions used by the global initialisers, then the globals, then the other functions
    (mimium resolves top-level names in definition order)"""
    out = []
    fns = p["fns"]
    order = p.get("order") or fn_order(fns)
    gl = p.get("globals", [])
    need = set()
    for g in gl:
        _refs(g["a"], need)
    todo = [n for n in need if n in fns]
    first = set()
    while todo:
        n = todo.pop()
        if n in first:
            continue
        first.add(n)
        acc = set()
        _refs(fns[n]["b"], acc)
        todo += [d for d in acc if d in fns]

    def emit(n):
        f = fns[n]
        ps = ", ".join(_ann(p_, t_) for p_, t_ in zip(f["ps"], f.get("pty") or [None] * len(f["ps"])))
        out.append(f"fn {n}({ps}){block(f['b'], 0)}")
    macros = p.get("macros") or {}
    if macros:
        out.append("#stage(macro)")
        morder = sorted(macros, key=lambda n: (any(m != n and m in json_names(macros[n]["b"]) for m in macros), n))
        for n in morder:
            out.append(f"fn {n}({', '.join(macros[n]['ps'])}){{\n  {mexpr(macros[n]['b'], 1)}\n}}")
        out.append("#stage(main)")
    for n in order:
        if n in first:
            emit(n)
    for g in gl:
        out.append(f"let {g['x']} = {expr(g['a'])}")
    for n in order:
        if n not in first:
            emit(n)
    return "\n".join(out) + "\n"

#!/bin/bash
# try_seeded.sh <seeded dir name> <check id>... : apply a seeded change to /repo, run the quick checks, undo.
# (development helper; never leaves /repo changed)
S=/verif/seeded/$1; shift
cd /repo && git diff --quiet || { echo "/repo is not clean"; exit 2; }
git -C /repo apply $S/patch.diff || exit 2
for c in "$@"; do
  out=$(cd /verif && ./check $c --tier ${TIER:-quick} 2>&1)
  rc=$?
  echo "--- $c exit=$rc  $(echo "$out" | grep -c '^VIOLATION') violations"
  echo "$out" | grep -A3 '^VIOLATION' | head -${LINES_SHOWN:-12} | cut -c1-300
  echo "$out" | grep 'TOOL-ERROR' | head -3 | cut -c1-300
done
git -C /repo checkout -- .
git -C /repo status --short | head -3

"""Shared machinery of the /verif checks: harness build + batch runner with
crash attribution, TLC runner, evidence writer, known-findings matcher.

Exit code contract (see DESIGN.md §2): 0 = property held on everything
explored (known findings are announced with KNOWN-FINDING lines), 1 = at least
one VIOLATION line was printed, 2 = tool failure (never a verdict).
"""
import hashlib
import json
import os
import re
import shutil
import subprocess
import sys
import tempfile
import time
from concurrent.futures import ThreadPoolExecutor

VERIF = os.path.dirname(os.path.dirname(os.path.abspath(__file__)))
REPO = os.environ.get("VERIF_REPO", "/repo")
HARNESS_DIR = os.path.join(VERIF, "harness")
HARNESS_BIN = os.path.join(HARNESS_DIR, "target", "debug", "mmverif")
# development only (lib/coverage.sh): a coverage-instrumented build of the same harness, used to see which
# parts of /repo the corpora never reach; the registered checks never set this variable
_DEV_BIN = os.environ.get("VERIF_DEV_HARNESS_BIN")
if _DEV_BIN:
    HARNESS_BIN = _DEV_BIN
TLA_DIR = os.path.join(VERIF, "tla")
WORK = os.path.join(VERIF, ".work")
EVID = os.path.join(VERIF, "evidence")
REPLAYS = os.path.join(VERIF, "replays")
NCPU = os.cpu_count() or 8


class ToolError(Exception):
    pass


def log(*a):
    print(*a, file=sys.stderr, flush=True)


def seed():
    try:
        return int(os.environ.get("VERIF_SEED", "1"))
    except ValueError:
        return 1


# --------------------------------------------------------------------------
# harness
# --------------------------------------------------------------------------
_built = False


def build_harness():
    """Rebuild the harness (and with it /repo's crates, hooks on) from the
    current working tree. A no-op when nothing changed."""
    global _built
    if _built or _DEV_BIN:
        return
    lock = os.path.join(HARNESS_DIR, "Cargo.lock")
    if not os.path.exists(lock):
        shutil.copy(os.path.join(REPO, "Cargo.lock"), lock)
    env = dict(os.environ, CARGO_NET_OFFLINE="true")
    t0 = time.time()
    p = subprocess.run(["cargo", "build", "--offline", "-q"], cwd=HARNESS_DIR, env=env,
                       stdout=subprocess.PIPE, stderr=subprocess.PIPE, text=True)
    if p.returncode != 0:
        errs = [l for l in p.stderr.splitlines() if l.startswith("error")]
        log(p.stderr[-4000:])
        raise ToolError("harness build failed: " + "; ".join(errs[:3]))
    log(f"[build] harness ready in {time.time()-t0:.1f}s")
    _built = True


def _run_batch(cmd, reqs, timeout, env=None, solo=False):
    """Run one harness process over reqs (sequentially). Returns list of
    (req, result|None, crashinfo|None). A request without a result because the
    process died or timed out gets crashinfo; the requests after it are re-run
    in a new process."""
    results = []
    pending = list(reqs)
    while pending:
        with tempfile.NamedTemporaryFile("w", suffix=".ndjson", dir=WORK, delete=False) as f:
            for r in pending:
                f.write(json.dumps(r) + "\n")
            inp = f.name
        outp = inp + ".out"
        try:
            # watchdog on progress: a request that produces no result within `timeout` seconds is a hang
            # (the process is killed at once; the whole batch does not wait for it)
            errf = tempfile.TemporaryFile()
            p = subprocess.Popen([HARNESS_BIN, cmd, inp, outp], stdout=subprocess.DEVNULL, stderr=errf, env=env)
            timed = False
            last_size, last_progress = -1, time.time()
            while True:
                try:
                    p.wait(timeout=0.25)
                    break
                except subprocess.TimeoutExpired:
                    pass
                size = os.path.getsize(outp) if os.path.exists(outp) else 0
                now = time.time()
                if size != last_size:
                    last_size, last_progress = size, now
                elif now - last_progress > timeout + (15 if size == 0 else 2):
                    timed = True
                    p.kill()
                    p.wait()
                    break
            rc = -999 if timed else p.returncode
            errf.seek(0)
            err = errf.read()
            errf.close()
            out = open(outp, "rb").read() if os.path.exists(outp) else b""
        finally:
            os.unlink(inp)
            if os.path.exists(outp):
                os.unlink(outp)
        lines = [l for l in out.decode("utf-8", "replace").splitlines() if l.strip()]
        got = []
        for l in lines:
            try:
                got.append(json.loads(l))
            except json.JSONDecodeError:
                break
        for r, g in zip(pending, got):
            results.append((r, g, None))
        if len(got) >= len(pending):
            break
        # the first request without a result killed the process
        culprit = pending[len(got)]
        info = {"rc": rc, "timeout": timed,
                "stderr": err.decode("utf-8", "replace")[-600:]}
        if not solo:
            # confirm in a fresh process: only a request that kills the process on its own is blamed
            again = _run_batch(cmd, [culprit], timeout, env, solo=True)
            results.append(again[0])
        else:
            results.append((culprit, None, info))
        pending = pending[len(got) + 1:]
    return results


def run_harness(cmd, reqs, timeout_per_req=10.0, jobs=None, chunk=None, env=None):
    """Run requests through `mmverif <cmd>` in parallel processes.
    Returns list of (req, result|None, crashinfo|None) in request order."""
    build_harness()
    os.makedirs(WORK, exist_ok=True)
    reqs = list(reqs)
    if not reqs:
        return []
    jobs = jobs or NCPU
    if chunk is None:
        chunk = max(1, min(200, (len(reqs) + jobs - 1) // jobs))
    batches = [reqs[i:i + chunk] for i in range(0, len(reqs), chunk)]
    with ThreadPoolExecutor(max_workers=jobs) as ex:
        outs = list(ex.map(lambda b: _run_batch(cmd, b, timeout_per_req, env), batches))
    res = []
    for o in outs:
        res.extend(o)
    return res


# --------------------------------------------------------------------------
# TLC
# --------------------------------------------------------------------------
_STATS = re.compile(r"(\d+) states generated, (\d+) distinct states found, (\d+) states left on queue")


_ESC = re.compile(r"\\(.)", re.S)
_ESC_MAP = {"n": "\n", "t": "\t", "r": "\r", "f": "\f"}


def _unescape_tla(s):
    # TLC prints strings with \" and \\ escapes
    if "\\" not in s:
        return s
    return _ESC.sub(lambda m: _ESC_MAP.get(m.group(1), m.group(1)), s)


def decode_tagged(body):
    """decode the raw body of a tagged line kept by run_tlc(raw_tags=...)"""
    return json.loads(_unescape_tla(body))


class TlcResult:
    def __init__(self):
        self.generated = 0
        self.distinct = 0
        self.queue = 0
        self.depth = 0
        self.ok = False
        self.violation = None
        self.tagged = {}
        self.stdout = ""
        self.wall = 0.0
        self.coverage = {}
        self.cmd = ""


def run_tlc(module, cfg=None, workers=None, timeout=600, env=None, simulate=None, depth=None,
            tags=("REPLAY",), coverage=False, extra=(), deque=False, xss=False, heap="8g", raw_tags=()):
    """Run TLC on tla/<module>.tla with tla/<cfg>.cfg. Collects lines printed
    as <<"TAG", "json">> for each tag. Raises ToolError on crash/timeout;
    invariant/postcondition violations are reported in result.violation."""
    os.makedirs(WORK, exist_ok=True)
    meta = tempfile.mkdtemp(prefix="tlc_", dir=WORK)
    cfg = cfg or module
    workers = workers or min(NCPU, 12)
    jopts = []
    if xss:
        jopts.append("-Xss1g")
    if deque:
        jopts.append("-Dtlc2.tool.queue.IStateQueue=StateDeque")
    e = dict(os.environ)
    if env:
        e.update({k: str(v) for k, v in env.items()})
    if jopts:
        e["JAVA_TOOL_OPTIONS"] = " ".join(jopts)
    cmd = ["timeout", str(int(timeout)), "java", f"-Xmx{heap}", "-XX:+UseParallelGC",
           "-cp", "/opt/veriftools/tla/tla2tools.jar:/opt/veriftools/tla/CommunityModules-deps.jar",
           "tlc2.TLC", "-workers", str(workers), "-metadir", meta, "-cleanup",
           "-noGenerateSpecTE", "-config", cfg + ".cfg"]
    if coverage:
        cmd += ["-coverage", "1"]
    if simulate:
        cmd += ["-simulate", f"num={simulate}"]
        if depth:
            cmd += ["-depth", str(depth)]
    cmd += ["-seed", str(seed())]
    cmd += list(extra)
    cmd += [module + ".tla"]
    t0 = time.time()
    p = subprocess.run(cmd, cwd=TLA_DIR, env=e, stdout=subprocess.PIPE, stderr=subprocess.STDOUT)
    r = TlcResult()
    r.cmd = " ".join(cmd)
    r.wall = time.time() - t0
    r.stdout = p.stdout.decode("utf-8", "replace")
    shutil.rmtree(meta, ignore_errors=True)
    for t in tags:
        r.tagged[t] = []
    pref = {t: f'<<"{t}", "' for t in tags}
    for line in r.stdout.splitlines():
        m = _STATS.search(line)
        if m:
            r.generated, r.distinct, r.queue = int(m.group(1)), int(m.group(2)), int(m.group(3))
        if line.startswith("The depth of the complete state graph search is"):
            r.depth = int(re.search(r"is (\d+)", line).group(1))
        for t in tags:
            if line.startswith(pref[t]) and line.endswith('">>'):
                if t in raw_tags:
                    # the caller selects among the lines before decoding them (decode_tagged)
                    r.tagged[t].append(line[len(pref[t]):-3])
                    continue
                body = _unescape_tla(line[len(pref[t]):-3])
                try:
                    r.tagged[t].append(json.loads(body))
                except json.JSONDecodeError as ex:
                    raise ToolError(f"cannot decode {t} line from TLC: {ex}: {body[:200]}")
    if p.returncode == 124:
        raise ToolError(f"TLC timeout after {timeout}s on {module}/{cfg}")
    viol = re.search(r"Error: (Invariant (\S+) is violated|Postcondition (\S+) .*violated|Assumption .* is false|.*property.*violated.*|Deadlock reached)", r.stdout)
    if viol:
        r.violation = viol.group(1)
        r.ok = False
        return r
    if "Model checking completed. No error has been found" in r.stdout or (
            simulate and "Error:" not in r.stdout):
        r.ok = True
        return r
    tail = "\n".join(r.stdout.splitlines()[-40:])
    raise ToolError(f"TLC failed on {module}/{cfg} (rc={p.returncode}):\n{tail}")


def tlc_error_trace(stdout):
    """Extract the textual counterexample of a TLC run."""
    i = stdout.find("Error:")
    return stdout[i:i + 6000] if i >= 0 else ""


# --------------------------------------------------------------------------
# findings / violations / evidence
# --------------------------------------------------------------------------
def canon_key(obj):
    s = obj if isinstance(obj, str) else json.dumps(obj, sort_keys=True, separators=(",", ":"))
    return hashlib.sha256(s.encode()).hexdigest()[:16]


class Findings:
    """KNOWN_FINDINGS.txt: lines
         known: property=<id> key=<k> input=<path> :: <what fails>
         fixed: property=<id> <commit> <what failed>
    Never written at run time."""

    def __init__(self, pid):
        self.pid = pid
        self.known = {}
        path = os.path.join(VERIF, "KNOWN_FINDINGS.txt")
        if os.path.exists(path):
            for line in open(path):
                line = line.strip()
                m = re.match(r"known: property=(\S+) key=(\S+) input=(\S+) :: (.*)", line)
                if m and m.group(1) == pid:
                    # a pinned input may say which runtime it was pinned for ("backend": "vm" | "wasm" | "both")
                    be = None
                    try:
                        be = json.load(open(os.path.join(VERIF, m.group(3)))).get("backend")
                    except (OSError, ValueError):
                        pass
                    self.known[m.group(2)] = {"input": m.group(3), "what": m.group(4), "seen": False, "backend": be}

    def is_known(self, key):
        return key in self.known

    def mark(self, key):
        self.known[key]["seen"] = True


class Check:
    """Bookkeeping of one check run: violations, known findings, evidence."""

    def __init__(self, pid, level, tier):
        self.pid = pid
        self.level = level
        self.tier = tier
        self.t0 = time.time()
        self.findings = Findings(pid)
        self.violations = []
        self.known_hits = []
        self.cov = {"samples": []}
        self.assumptions = []
        self.notes = []
        os.makedirs(EVID, exist_ok=True)
        # replays of earlier runs of this check do not belong to this run
        d = os.path.join(REPLAYS, pid)
        if os.path.isdir(d):
            for fn in os.listdir(d):
                if fn.endswith(".json"):
                    try:
                        os.unlink(os.path.join(d, fn))
                    except OSError:
                        pass

    def violation(self, what, replay_obj, key=None):
        """Report a failing case. `key` identifies the specific input; if it is
        listed in KNOWN_FINDINGS.txt the case is a known finding."""
        key = key or canon_key(replay_obj)
        if self.findings.is_known(key):
            pinned_be = self.findings.known[key].get("backend")
            got_be = replay_obj.get("backend") if isinstance(replay_obj, dict) else None
            if pinned_be in ("vm", "wasm") and got_be in ("vm", "wasm") and pinned_be != got_be:
                # the finding is pinned for the other runtime: this failure is a different one
                key = f"{key}-{got_be}"
        if self.findings.is_known(key):
            if not self.findings.known[key]["seen"]:
                self.findings.mark(key)
                self.known_hits.append(key)
                print(f"KNOWN-FINDING: property={self.pid} {self.findings.known[key]['what']}", flush=True)
            return False
        if any(v["key"] == key for v in self.violations[-200:]) or key in getattr(self, "_vkeys", set()):
            self.cov["repeated_reports_of_one_key"] = self.cov.get("repeated_reports_of_one_key", 0) + 1
            return True
        self._vkeys = getattr(self, "_vkeys", set()) | {key}
        d = os.path.join(REPLAYS, self.pid)
        os.makedirs(d, exist_ok=True)
        path = os.path.join(d, f"{key}.json")
        with open(path, "w") as f:
            json.dump({"property": self.pid, "what": what, "key": key, "case": replay_obj}, f, indent=1)
        self.violations.append({"what": what, "replay": path, "key": key})
        if len(self.violations) <= 25:
            print(f"VIOLATION property={self.pid} replay={path}", flush=True)
            log(f"  -> {what[:300]}")
        return True

    def add_sample(self, s, limit=5):
        if len(self.cov["samples"]) < limit:
            self.cov["samples"].append(s)

    def count(self, k, n=1):
        self.cov[k] = self.cov.get(k, 0) + n

    def tlc(self, r, label):
        self.cov["states"] = self.cov.get("states", 0) + r.distinct
        self.cov["transitions"] = self.cov.get("transitions", 0) + r.generated
        self.cov.setdefault("tlc_runs", []).append(
            {"job": label, "generated": r.generated, "distinct": r.distinct, "depth": r.depth,
             "wall_s": round(r.wall, 1)})

    def finish(self):
        for k, v in self.findings.known.items():
            if not v["seen"]:
                self.notes.append(f"listed finding {k} ({v['what'][:80]}) was not reproduced by this run")
                log(f"note: listed finding {k} not reproduced in this run/tier")
        cov = self.cov
        cov.setdefault("evaluations", 0)
        cov.setdefault("distinct_nontrivial", 0)
        cov.setdefault("rule", "")
        if self.level == "model_checking":
            cov.setdefault("states", 0)
            cov.setdefault("transitions", 0)
            cov.setdefault("traces_validated_against_impl", 0)
        if self.level == "translation_validation":
            cov.setdefault("programs", 0)
            cov.setdefault("disagreements_checked", 0)
        cov["known_findings_reproduced"] = len(self.known_hits)
        if self.notes:
            cov["notes"] = self.notes
        ev = {"property_id": self.pid, "tier": self.tier, "seed": seed(), "level": self.level,
              "coverage": cov, "assumptions": self.assumptions,
              "wall_s": round(time.time() - self.t0, 2), "violations": len(self.violations)}
        with open(os.path.join(EVID, f"{self.pid}.json"), "w") as f:
            json.dump(ev, f, indent=1)
        log(f"[{self.pid}] tier={self.tier} wall={ev['wall_s']}s violations={len(self.violations)} "
            f"known={len(self.known_hits)}")
        return 1 if self.violations else 0

#!/usr/bin/env python3
"""mkagent.py <PID> <letter>: create the scratch worktree /tmp/wt_<PID><letter> of /repo and print the prompt
for a fresh sub-agent (development helper for the seeded-change rounds; not used by any check).
The prompt contains the property text only - nothing about the checks in /verif."""
import glob, json, os, subprocess, sys
V = os.path.dirname(os.path.dirname(os.path.abspath(__file__)))
pid, letter = sys.argv[1], sys.argv[2]
prop = next(json.loads(l) for l in open(os.path.join(V, "properties.jsonl")) if json.loads(l)["id"] == pid)
wt = f"/tmp/wt_{pid}{letter}"
if not os.path.isdir(wt):
    subprocess.check_call(["git", "-C", "/repo", "worktree", "add", "--detach", wt, "HEAD"], stdout=subprocess.DEVNULL, stderr=subprocess.DEVNULL)
    if os.path.isdir("/repo/target") and "--no-target" not in sys.argv:
        subprocess.call(["cp", "-r", "--reflink=auto", "/repo/target", wt + "/target"])
prev = []
for f in sorted(glob.glob(os.path.join(V, "seeded", pid + "-*", "meta.json"))):
    m = json.load(open(f))
    prev.append("- " + " ".join(str(m.get("breaks") or m.get("summary")).split())[:260])
prev_txt = ("\nChanges of this kind that somebody else already produced - do NOT repeat these or close variants of them, pick a different mechanism and a different place in the code:\n" + "\n".join(prev) + "\n") if prev else ""
print(f"""You are helping to evaluate a verification effort for the Rust project mimium-rs (a statically typed, multi-stage functional language for sound: parser, HM-style type inference, MIR, bytecode VM and WASM backends, hot-swap of state, scheduler, formatter, Rust transpiler).

Your own scratch git worktree of the repository is {wt} (a detached checkout of the current HEAD, with a pre-filled build directory {wt}/target). Work ONLY inside {wt}. Never read or write /repo or /verif, never commit, never push. There is no network: always build with `--offline`; always `export CARGO_TARGET_DIR={wt}/target` first. The machine is shared with other jobs: do not start more than one cargo command at a time.

The property under study ({pid}: {prop['title']}):

\"\"\"{prop['statement']}\"\"\"

Scope of the quantifier: {prop['quantifier']['text']}

Your task: produce ONE realistic change to the source of mimium-rs (the kind of edit a contributor could make in good faith: an optimisation, a refactoring, a simplification, a "fix" of something else, an off-by-one, a reordering, a forgotten case) that BREAKS this property while
  (1) the workspace still compiles,
  (2) the whole existing test suite still passes: `cd {wt} && cargo nextest run --workspace --no-fail-fast --test-threads 8 --offline` (358 tests; all must pass; it takes 1-3 minutes after the first build),
  (3) the breakage needs something specific to manifest - a particular multi-step sequence of operations, an unusual input shape or value, a particular interleaving, a fault at a particular point, or two cooperating code sites that each look fine alone - NOT something that ordinary use or the first program anyone writes would expose at once. Prefer a change deep in the mechanism behind the property (read the code first: find the places that make the property true today) to a superficial one. Small diffs are best (typically 1-15 lines).
{prev_txt}
Also produce a DEMONSTRATION: a Rust integration test file (to be dropped into {wt}/crates/lib/mimium-test/tests/ and run with `cargo test -p mimium-test --test <name> --offline`), or if that is not practical a small program / shell script, that FAILS with your change and PASSES on the unchanged tree. Verify both directions yourself (to switch between changed and unchanged sources use `git diff > my.diff; git apply -R my.diff` and `git apply my.diff` - do NOT use `git stash`: the stash is shared by all worktrees of the repository and other people are working in theirs; remove the demo file from the crate's tests directory afterwards so that the suite count stays 358).

Deliver everything in the directory {wt}/seeded/ (create it; it is the only thing you add besides your source change, which must remain applied in the worktree when you finish):
  - seeded/patch.diff : `git diff` of the source change only (paths relative to the repository root; must apply with `git apply` to a clean checkout; must not include the demo or seeded/ itself)
  - seeded/demo/      : the demonstration (test file or program), a run.sh or README.md saying exactly how to run it, and the outputs you saw with and without the change
  - seeded/meta.json  : {{"property": "{pid}", "summary": "<what was changed, where, and why it looks innocent>", "needs": "<what exactly is needed for the breakage to manifest, and what does NOT expose it>", "files_changed": [...], "tests_passed": "<the Summary line of the nextest run with the change>"}}

Finish with a short report: the change, what it needs to manifest, the suite result with the change, and the demo results with and without the change. If an idea turns out to fail one of the existing tests, or to manifest too easily, drop it and try another one; do not weaken or edit existing tests.""")

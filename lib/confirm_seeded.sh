#!/bin/bash
# confirm_seeded.sh <ID> <demo file name (in seeded/demo)> [package] [tests dir]: confirm a seeded change in its
# scratch worktree /tmp/wt_<ID> (development helper; not used by any check). Prints a log for meta.json.
ID=$1; DEMO=$2; PKG=${3:-mimium-test}; TDIR=${4:-crates/lib/mimium-test/tests}
WT=/tmp/wt_$ID; T=$(basename $DEMO .rs)
cd $WT || exit 2
export CARGO_TARGET_DIR=$WT/target
echo "== diff applies to: $(git diff --stat -- . ':!seeded' | tail -1)"
echo "suite_with_change: $(cargo nextest run --workspace --no-fail-fast --test-threads 8 --offline 2>&1 | grep -E '^\s+Summary' | tail -1)"
mkdir -p $TDIR; cp seeded/demo/$DEMO $TDIR/
echo "demo_with_change: $(cargo test -p $PKG --test $T --offline 2>&1 | grep -E '^test result' | tail -1)"
# (not git stash: the stash is shared by all worktrees of a repository)
git diff -- . ':!seeded' > /tmp/confirm_$ID.diff; git apply -R /tmp/confirm_$ID.diff
echo "demo_without_change: $(cargo test -p $PKG --test $T --offline 2>&1 | grep -E '^test result' | tail -1)"
git apply /tmp/confirm_$ID.diff
rm -f $TDIR/$DEMO
git status --short | grep -v seeded | head -5

#!/bin/bash
# confirm_seeded.sh <ID> <demo file name (in seeded/demo)> : confirm a seeded change in its scratch worktree /tmp/wt_<ID>
# (development helper; not used by any check). Prints a log for meta.json.
ID=$1; DEMO=$2; WT=/tmp/wt_$ID; T=$(basename $DEMO .rs)
cd $WT || exit 2
export CARGO_TARGET_DIR=$WT/target
echo "== diff applies to: $(git diff --stat -- . ':!seeded' | tail -1)"
echo "suite_with_change: $(cargo nextest run --workspace --no-fail-fast --test-threads 8 --offline 2>&1 | grep -E '^\s+Summary' | tail -1)"
cp seeded/demo/$DEMO crates/lib/mimium-test/tests/
echo "demo_with_change: $(cargo test -p mimium-test --test $T --offline 2>&1 | grep -E '^test result' | tail -1)"
git stash -q
echo "demo_without_change: $(cargo test -p mimium-test --test $T --offline 2>&1 | grep -E '^test result' | tail -1)"
git stash pop -q
rm -f crates/lib/mimium-test/tests/$DEMO
git status --short | grep -v seeded | head -5

#!/usr/bin/env python3
"""Regenerates MANIFEST.json from the table below (single source of truth)."""
import json
import os

VERIF = os.path.dirname(os.path.dirname(os.path.abspath(__file__)))
props = [json.loads(l) for l in open(os.path.join(VERIF, "properties.jsonl"))]

CLAIMED = {
    "C08": dict(
        category="model_checking",
        text="TLC enumerates every ordered pair of layouts of a bounded universe and all single-edit scripts and checks "
             "well-formedness, no-op, zero-elsewhere and survivor coverage on a line-by-line transcription of tree_diff.rs; "
             "the real planner is run on every enumerated pair and must return exactly the transcription's plan, and real "
             "plans (sampled pairs + random pairs <= 40 nodes) are validated by StateTreeTrace.tla against the predicates.",
        design_ref="DESIGN.md §6 C08",
        note="Trusted: TLC, the JSON codec, the harness' tree conversion. Bounded universe (quick: 273 trees, 74k pairs; "
             "thorough: 651 trees, 424k pairs); beyond it only random pairs.",
        technique="TLA+ transcription model-checked exhaustively with TLC; plan equality replay + trace validation of real plans",
    ),
}
CLAIMED["C02"] = dict(
    category="model_checking",
    text="Lang.tla defines the output stream of a core-language program (call-by-value, one state cell per call-tree "
         "position) independently of the compiler. LangGen.tla makes TLC enumerate every well-typed function body up to a "
         "token budget over the enabled productions; each is evaluated in TLA+ and replayed on the VM and the WASM runtime, "
         "sample by sample. Larger seeded random programs are run on the VM and their recorded runs are validated by "
         "LangTrace.tla (one Sample action per recorded sample).",
    design_ref="DESIGN.md §6 C02",
    note="Integer-valued fragment only (values compared by value, -0.0 = 0). Clean-fragment switches exclude constructs with "
         "pinned findings (stateful calls in if arms / lambdas, projection as function result, if inside tuple literals). "
         "Trusted: TLC, lib/printer.py, the JSON codec.",
    technique="TLA+ definitional evaluator + TLC-enumerated programs replayed on the real runtimes; trace validation of recorded runs",
)
CLAIMED["C01"] = dict(
    category="translation_validation",
    text="Every TLC-enumerated program of LangGen.tla is compiled by both back ends and run sample by sample; each run must "
         "equal the output stream computed by Lang.tla and the pair must be accepted by Lockstep.tla (accept/reject "
         "agreement, channel count, bit-equal outputs at every step). Shipped examples/fixtures and systematic mutants of "
         "them (beyond what the specification can compute) are validated by the same lock-step trace specification with "
         "inputs including +-0, denormals, infinities and NaN.",
    design_ref="DESIGN.md §6 C01",
    note="Unit of evidence: one program compiled twice. Lockstep.tla states the relation between two real executions; it does "
         "not compute values. Device plugins are not loaded. Pinned findings: see KNOWN_FINDINGS.txt.",
    technique="TLC-generated programs replayed on both back ends against a TLA+ evaluator; lock-step trace validation with TLC",
)
CLAIMED["C06"] = dict(
    category="model_checking",
    text="Runtime.tla models boot / tick / hot swap to the same source as both runtimes perform it (cells carried over, clock "
         "kept, global initialisers re-run). TLC generates every stateful program of the LangGen budget and explores every "
         "history over the allowed split points and swap counts; on the model the swap is a stutter on <<cells, now>> "
         "(action property) and the outputs equal the uninterrupted run (invariant). Every history is replayed through the "
         "real hot-swap paths of the VM and of the WASM runtime (with the CLI's own payload composition) and compared per "
         "sample. Shipped stateful sources: swapped instance vs uninterrupted twin, validated by Lockstep.tla.",
    design_ref="DESIGN.md §6 C06",
    note="Scope as stated by the property: state in self/mem/delay cells reachable from dsp (no scheduler, no global closures "
         "or mutated globals). Swaps are driven through DspRuntime::try_hot_swap single-threaded, not through the audio thread.",
    technique="TLA+ runtime model checked with TLC; TLC-generated histories replayed on VM and WASM; lock-step trace validation",
)
CLAIMED["C05"] = dict(
    category="model_checking",
    text="StateCursor.tla transcribes mirgen's state-offset bookkeeping (pending offset, push_sum, branch arms, self cell) and "
         "the run-time cursor protocol; TLC enumerates every function shape up to a bound and every branch path and checks "
         "that each access lands on a leaf of the published layout with its kind and size and that the cursor returns to the "
         "origin. For every shape of a smaller bound the predicted layout and the predicted state-event list of every path "
         "are replayed: the shape is turned into a program, run on VM and WASM with the state hooks on, and the real layout "
         "and the real event list of every sample must be the predicted ones. Recorded runs of generated, random and shipped "
         "programs are validated by LayoutTrace.tla against the published layout; VM and WASM state words are compared by "
         "Lockstep.tla after every sample.",
    design_ref="DESIGN.md §6 C05",
    note="Hooks (cfg mimium_verif) record every GetState/SetState/Mem/Delay/Push/PopStateOffset of both runtimes. Only dsp's "
         "own storage is compared with a layout; per-closure storages are observed but not checked. Decision-tree (tuple) "
         "match is not modelled.",
    technique="TLA+ transcription of the compiler's bookkeeping model-checked with TLC; predicted event lists replayed on instrumented runtimes; trace validation",
)
CLAIMED["C09"] = dict(
    category="model_checking",
    text="StagingCore.tla models the macro stage (quote, splice, f!(..), macro-stage let, functions as values, numeric recursion that "
         "builds code, lift_f) and its hygienic expansion into plain Lang programs; Staging.tla places every LangGen expression of the "
         "budget in every staging context and TLC checks the laws on the specification (quote-then-splice is the identity on meaning, "
         "f!(a) means $(f(a)), a macro passed as a value means the direct call). Each staged program and its printed expansion run on "
         "both back ends against the samples Lang assigns to the expansion, and Lockstep.tla validates staged against expanded sample "
         "by sample. A table of further expression forms and of macro-stage float arithmetic through lift_f is validated staged against "
         "hand expansion, bit for bit.",
    design_ref="DESIGN.md §6 C09",
    note="Contexts whose template puts the spliced code under a lambda take pure expressions only (self and call-site state belong to "
         "the function they are written in; such an expansion cannot be written as a plain program by substitution). Integer match "
         "inside quoted code is a pinned finding.",
    technique="TLA+ model of the macro stage and its expansion over a definitional evaluator, checked with TLC; generated staged programs replayed on VM and WASM next to their expansion with lock-step trace validation",
)
CLAIMED["C10"] = dict(
    category="model_checking",
    text="Hygiene.tla spans a matrix of macro templates and use sites over a two-name alphabet (binder form x template binder name x "
         "use-site name x form of the spliced code x use-site form x call syntax); TLC visits every cell, checks RenamingInvariant on "
         "the specification (renaming the template's binder leaves the samples unchanged) under hygienic expansion and must find its "
         "violation under name-based expansion. Every cell runs on both back ends against the samples of the hygienic expansion, and "
         "Lockstep.tla validates each cell against its renamed twin.",
    design_ref="DESIGN.md §6 C10",
    note="On the pinned tree expansion is name-based: the 144 cells in which the two names coincide and the template binder encloses "
         "the hole are pinned findings (each by its source); every other cell must be clean.",
    technique="TLA+ hygiene matrix with a renaming invariant checked exhaustively with TLC (and refuted for name-based expansion); every cell replayed on VM and WASM with lock-step validation against its renamed twin",
)
CLAIMED["C11"] = dict(
    category="model_checking",
    text="Scheduler.tla models the two scheduler mechanisms action by action (VM: mpsc channel drained against the previous "
         "clock, then pop-and-run; WASM: trampoline check + shared heap, drain-then-run). TLC explores every task configuration "
         "of the bound (global-scope, dsp-scheduled and self-rescheduling tasks, equal times, periods) per mechanism and checks "
         "exactly-once-on-time, nothing-missed-before-dsp and never-refused, and that both mechanisms predict the same counter "
         "vectors. Every configuration is printed as a program (integral and fractional times) and replayed on the real VM and "
         "WASM runtimes; dsp must see the predicted counters at every sample.",
    design_ref="DESIGN.md §6 C11",
    note="WASM is replayed only on configurations scheduled from global scope without rescheduling (pinned finding: closures "
         "created at run time live in per-tick scratch memory on WASM). Effects of equal-time tasks commute by construction.",
    technique="TLA+ mechanism model checked with TLC for all bounded task configurations; configurations replayed on both runtimes",
)
CLAIMED["C13"] = dict(
    category="model_checking",
    text="LexGen.tla makes TLC enumerate every string up to a length bound over an alphabet of character classes (letters, digits, "
         "dots, quotes, comment starters, operators, brackets, line breaks, 2- and 4-byte characters); the real tokenize / preparse / "
         "parse_cst run on each and LexTrace.tla validates the recorded result: the lexer as a state machine consuming the text "
         "(start = position, positive length, character boundaries, one end marker at the end), the CST leaves equal to the syntax "
         "tokens in order, every trivia token attached to exactly one adjacent syntax token. Shipped sources, all prefixes of "
         "some, random and mutated Unicode texts go through the same trace specification.",
    design_ref="DESIGN.md §6 C13",
    note="No hook needed (the public API returns everything). Pinned class: trivia before the first syntax token that contains a "
         "line break is dropped by preparse (the formatter compensates); trivia attachment is not judged for texts of that class.",
    technique="TLC-enumerated inputs; trace validation of the real lexer/parser output against a TLA+ lexer/CST specification",
)
CLAIMED["C04"] = dict(
    category="model_checking",
    text="LexGen.tla makes TLC enumerate every token sequence up to a length bound over the token-class alphabet (each rendered "
         "with three separator choices); every text is handed to tokenize, parse_to_expr, the language server's analyze_source, "
         "emit_bytecode and emit_wasm, each call in a thread with a 2 MiB stack and a time limit. FrontendTrace.tla is the "
         "contract: a call returns ok or diagnostics whose spans lie inside the text on character boundaries; there is no "
         "action for panic, abort or timeout. Prefixes and mutations of shipped programs, token soups and bracket nesting up "
         "to the stated bound of 48 go through the same trace specification.",
    design_ref="DESIGN.md §6 C04",
    note="The specification is a contract, not a design model (stated in DESIGN.md). The corpus is derived deterministically "
         "(independent of VERIF_SEED) because several classes of texts fail on the pinned tree and are pinned by their specific "
         "text (cyclic type in the checker -> stack overflow; builtin name as last statement; -{}; | | self; non-ASCII spans).",
    technique="TLC-enumerated token sequences; trace validation of call/return events against a TLA+ contract",
)
CLAIMED["C19"] = dict(
    category="model_checking",
    text="Session.tla with K threads per process: TLC explores every interleaving of the compile steps over the shared interner and the "
         "process environment variable the macro stage publishes its file in, checks that what each compilation yields is a function "
         "of its source and that no started compilation can be blocked for good, and refutes the modelled race. The harness starts K "
         "threads that compile and run their jobs at the same time with seeded yields before acquisitions of the session lock; every "
         "thread's observation is validated against the solo observation of the same source (DeterminismTrace.tla), a round that does "
         "not return is a deadlock, and in logged rounds every interner operation is recorded under the lock and validated as a "
         "history of a sequential interner (SessionTrace.tla).",
    design_ref="DESIGN.md §6 C19",
    note="Real schedules are perturbed, not enumerated; only the model is exhaustive. The environment-variable guard of the macro "
         "stage is a pinned finding (model counterexample and real runs).",
    technique="TLA+ session model with threads checked exhaustively with TLC; recorded per-thread observations and lock-ordered interner histories validated against trace specifications",
)
CLAIMED["C20"] = dict(
    category="model_checking",
    text="Ffi.tla defines the universe of macro-stage values (symbolic numbers incl. -0, denormal, infinities, NaN with payload; "
         "strings incl. empty, non-ASCII and embedded NUL; arrays/tuples/records of width 0-2, tagged unions, code, and the "
         "kinds that cannot cross) and of types (every variant) up to a depth bound, and the contract of a lossless channel that "
         "may refuse only what cannot cross; TLC enumerates it exhaustively. Every item goes through the real encoders "
         "(macro result path, macro argument path, the serde implementations of Value and Type) and FfiTrace.tla validates the "
         "recorded outcomes: accepted => decodes to itself; representable => accepted.",
    design_ref="DESIGN.md §6 C20",
    note="Thin specification (a contract plus a bounded universe), as stated in DESIGN.md. Nested TypeNodeId / ExprNodeId travel as "
         "interner keys (shared interner); numbers are compared by bit pattern.",
    technique="TLC-enumerated value/type universe; round trips through the real encoders validated against a TLA+ channel contract",
)
CLAIMED["C17"] = dict(
    category="model_checking",
    text="Modules.tla fixes a small module scope (module m with two members and a nested module, a sibling module that may "
         "re-export, a module that re-exports from its own submodule) and the resolution function the language promises "
         "(definition denoted by the path, or refusal for private / unknown members; local bindings shadow imports). TLC "
         "enumerates every combination of pub flags x re-export x reference form (qualified path, use, multi-import, wildcard, "
         "re-export, shadowed import, facade) x position (root, sibling module, inside the module): exhaustive small scope. "
         "Each case is rendered as a program and replayed on both back ends: refused with a diagnostic iff the specification "
         "says so, otherwise dsp must return the constant of the denoted definition.",
    design_ref="DESIGN.md §6 C17",
    note="Inline modules only (no file modules). Whether an import of an invisible member that is never used must itself be "
         "refused is left open by the property: both answers are accepted there.",
    technique="TLA+ resolution function over an exhaustively enumerated small module scope; cases replayed on both back ends",
)
CLAIMED["C12"] = dict(
    category="model_checking",
    text="Heap.tla is the lifecycle of the VM's reference-counted objects (heap objects and closures, identified by versioned slot "
         "keys). The hooks record every alloc / retain / release of heap objects and alloc / drop of closures; HeapTrace.tla "
         "accepts a run only if every event is enabled in the model (no retain or release of an object that is not live, counts "
         "as reported, no slot allocated while live), if the growth of the VM's own count of heap objects per sample is the "
         "model's, and if the numbers of live closures / heap objects after sample 20 and after sample 40 are equal (also for the "
         "WASM host's stores). Corpora: every LangGen program of the budget that creates closures while dsp runs, shipped sources.",
    design_ref="DESIGN.md §6 C12",
    note="On the pinned tree the VM keeps every closure created while dsp runs: boundedness on the VM is therefore not asked of the "
         "generated closure programs (one pinned instance per construct) and the leaking shipped fixtures are pinned by file. "
         "Objects created by the global initialisers are unknown to the model (events on them are not judged).",
    technique="TLA+ lifecycle model; trace validation of hook-recorded alloc/retain/release events and per-sample live counts",
)
CLAIMED["C03"] = dict(
    category="model_checking",
    text="RuntimeTrace.tla is the outcome contract of a compile-and-run session: rejected with diagnostics, or accepted and then "
         "every dsp call returns exactly the declared number of output words; there is no action for panic, abort or hang. The "
         "hooks run in strict mode, which checks every instrumented access of the state storage against its capacity and turns "
         "an access outside it into an abnormal end, so such a trace is not a behaviour of the specification. Inputs: every "
         "LangGen program of the budget (TLC), deterministic type-changing near-miss mutants of them (scalar -> tuple, empty and "
         "17-element tuples, function where a number is expected, unit-valued if, projection of a scalar, arity changes), the "
         "shipped sources; each recorded session is validated with TLC.",
    design_ref="DESIGN.md §6 C03",
    note="Thin contract specification. Near-miss mutants are replayed on the VM only (the WASM back end fails on most accepted "
         "mutants: one pinned instance per class); the VM mutants that crash on the pinned tree are pinned individually (type "
         "checker accepts a non-function passed to a higher-order function; unit-valued if used as a value; unused lambda with "
         "unresolved parameter type). Only instrumented access sites are observed.",
    technique="TLC-enumerated programs and deterministic near-miss mutants; trace validation of session outcomes against a TLA+ contract; strict-mode bounds hooks",
)
CLAIMED["C07"] = dict(
    category="model_checking",
    text="EditSwap.tla: the program is a list of independent stateful voices (five state shapes) bound in dsp; channel A sums the "
         "voices no edit has touched, channel B the rest. TLC explores every history of ticks, edits (insert / delete / replace a "
         "voice at any position, change a constant) and failing compilations within the bounds; the specification's state after "
         "a swap is what the property promises (the cells of surviving voices move with the voice, every other cell starts at "
         "zero, the clock keeps running, a failing compilation changes nothing), computed on Lang.tla's call-tree cells, not by "
         "the diff. Every history is replayed through the real hot-swap paths of the VM and of the WASM runtime (CLI payload "
         "composition) and channel A is compared sample by sample; failing compilations must be refused.",
    design_ref="DESIGN.md §6 C07",
    note="Voices of one program have pairwise different state shapes (the property leaves the assignment among identically "
         "shaped siblings open). Nest-deeper edits are not generated. Two output channels throughout.",
    technique="TLA+ model of edit histories over a definitional evaluator, checked with TLC; histories replayed on VM and WASM",
)
CLAIMED["C14"] = dict(
    category="model_checking",
    text="FormatterTrace.tla is the formatter's contract as a trace specification: a Format(text, width, indent) event on a valid text "
         "may only be the step in which the output parses, to the same syntax tree without spans, with the same comments in the same "
         "order, and formatting it again returns it unchanged. The projections come from the real tokenizer and parser. Texts: every "
         "LangGen program of the budget (TLC, exhaustive) printed in three layouts (plain, redundant parentheses, comments and line "
         "breaks inside brackets), a table of the syntax forms outside Lang, and the shipped sources, at several widths and indent sizes.",
    design_ref="DESIGN.md §6 C14",
    note="The CST printer is experimental upstream: match / enum / type declarations, `if` without parentheses, comments after a comma "
         "and at the end of the file are pinned findings (each by its text). Two local defects were repaired (`| |`, parameter "
         "annotations and defaults).",
    technique="TLC-enumerated programs printed in several layouts plus a syntax-form table, formatted by the real formatter; recorded Format events validated against a TLA+ contract (trace specification)",
)
CLAIMED["C15"] = dict(
    category="model_checking",
    text="Session.tla models a compilation session (process-wide interner, anonymous-function counter, hash seed; several processes) "
         "and states the property - what a compilation yields is a function of the source alone; TLC checks it over all histories of "
         "the bound and must refute it for each modelled leak (interned id, counter, hash seed). The harness compiles and runs every "
         "source of a corpus twice per process in a seeded order in several fresh processes, recording bytecode listing, WASM bytes, "
         "state layout, first samples and diagnostics; DeterminismTrace.tla validates that all observations of one source are equal.",
    design_ref="DESIGN.md §6 C15",
    note="The MIR listing prints interned ids and is not part of the statement. Sources that kill the process are C03's matter and "
         "are left out.",
    technique="TLA+ session model checked with TLC (and refuted per modelled leak); recorded compile events of many processes and histories validated against a trace specification",
)
CLAIMED["C16"] = dict(
    category="model_checking",
    text="Lang.tla defines consistent renaming of user-chosen identifiers (RenameProg); MCRename.tla checks with TLC that the "
         "specification's output stream of every LangGen program of the budget is invariant under it. Every program is then "
         "transformed at the source level - renamed from an adversarial pool (names resembling those the compiler mints itself, "
         "long and non-ASCII names), wrapped in redundant parentheses, re-laid out with comments and line breaks inside brackets, "
         "annotated with the types it has anyway - and the transformed program runs next to the original on both back ends; "
         "Lockstep.tla validates that accept/reject and every output sample agree.",
    design_ref="DESIGN.md §6 C16",
    note="Names are never keywords or builtins. Two names are pinned findings and not in the pool (a parameter named feed_id0 in a "
         "function that uses self; a function named _mimium_global). Annotations are limited to float, (float,float) and "
         "(float)->float, the types of the core fragment.",
    technique="TLA+ renaming invariance checked with TLC; source-level transformations replayed next to the original with lock-step trace validation",
)
CLAIMED["C18"] = dict(
    category="translation_validation",
    text="Lang.tla (the definitional evaluator checked with TLC) gives the expected samples of every LangGen program of the budget; "
         "each program goes through Context::emit_rust, the emitted source is completed with a host that supplies now and "
         "samplerate as the driver does, built with rustc and run, and the (VM run, Rust run) pair is validated by Lockstep.tla in "
         "subset mode: the generator may refuse a program, anything else it does must match the VM bit for bit, sample by sample. "
         "Shipped fixtures, examples and systematic mutants of them go through the same trace specification.",
    design_ref="DESIGN.md §6 C18",
    note="No plugins are loaded, so programs with external calls are refused by both sides. rustc runs at opt-level 0.",
    technique="TLA+ definitional evaluator checked with TLC; generated programs emitted as Rust, built with rustc, run and validated against the VM run with a lock-step trace specification",
)
NOT_YET = {}

# what was added to the checks after the first version (see DESIGN.md section 11)
EXTRA = {
    "C01": "Also: a table of numeric literals and a table of every numeric builtin and operator on a grid of special values "
           "(ties, signed zeros, denormals, infinities, NaN) through dsp's inputs, compared bit for bit.",
    "C02": "A further exhaustive job generates lets that bind a name of an enclosing scope again (lexical scope of nested blocks).",
    "C03": "A table of branch constructs outside Lang (numeric match with literal arms and a default arm, every arm stateless or "
           "stateful, in dsp and in a stateful function, every arm taken at run time) runs under the same contract; numeric matches are "
           "also driven with NaN, infinities, +-2^63, fractions and signed zero as scrutinee.",
    "C04": "TLC also enumerates sequences over three phrase lexicons (whole declarations as classes: modules re-exporting from "
           "each other, type aliases, functions and globals referring to each other). A panic is identified by its call site once "
           "its text is not pinned. The harness runner has a progress watchdog (a hang costs one request, not the batch).",
    "C05": "Callees include self cells of one word, of a flat pair and of a nested tuple (one cell of three words).",
    "C07": "Edits include nesting a voice one call deeper and back. A second layer binds the live-coding loop of the CLI: "
           "LiveLoop.tla models editor / watcher thread / audio thread with the swap channel (who computes the migration plan, "
           "from which layout, applied to which program) and TLC checks the promise over all interleavings for the VM path, the "
           "in-process WASM path and the compiler-subprocess WASM path the CLI uses (where it fails: pinned finding), and refutes "
           "it for a consumer that takes only the newest waiting program; EditSwap.tla with Live = TRUE queues saved versions for "
           "the audio callback (one per invocation, also re-saves of an unchanged file), and a structural cover of its histories is "
           "replayed through the real FileRunner, compile service / compiler subprocess, swap channel and NativeAudioData::process.",
    "C01": "Layer (e): tasks with non-commuting effects scheduled from global scope in every order of deadlines (several for one "
           "sample, after a task with a later deadline): the order among tasks due at the same sample must be the same on both "
           "runtimes. The builtin table includes a numeric match.",
    "C02": "Job clo: a LangGen template in which dsp starts with a local and an open closure that assigns it; TLC fills the rest with "
           "reads / assignments of the local and calls of the closure (left-to-right evaluation around a call that assigns).",
    "C11": "Every configuration scheduled from global scope also runs with closures bound by let / letrec inside a function and, "
           "when two definitions coincide, with one closure object scheduled twice (also at times equal only after truncation).",
    "C14": "The form table includes tokens that span lines (string literals with line breaks at several indentation levels).",
    "C16": "An annotation table (function kinds x where agreeing annotations are written x call forms with and without a "
           "defaulted argument) is validated variant against variant by Lockstep.tla.",
    "C08": "Also: single deletions / insertions in sibling lists over a palette of subtree weights (stateful leaves of 1-3 words, "
           "stateless calls of 1-5 nodes, calls mixing both), the real plans validated by StateTreeTrace.tla.",
    "C15": "The corpus also holds a table of order-sensitive programs (clashing wildcard imports, multi-imports, 6-8 declarations "
           "of each kind).",
    "C19": "Thread mixes include jobs that end in a panic of their own (macro-stage primitives on malformed input, an unsupported "
           "shape); Session.tla models the poisoning of the session lock by a panic of its holder.",
    "C20": "The universe includes the empty aggregates and a third level with empty aggregates in payload / element / field position.",
    "C09": "The form table includes sibling and nested tuple patterns with placeholders and forms about the block structure of "
           "quoted code (a let after a statement in a nested block, an if arm, a lambda body, shadowing an outer local).",
    "C10": "A table of templates outside Lang (letrec beside / around the hole, binders in nested blocks, if arms, tuples, binders "
           "mentioned by quoted code inside a splice) x seven use sites (global / local definitions, names imported from a module by "
           "wildcard or by name) is run with the binder named t and named u and validated by Lockstep.tla.",
    "C12": "Boundedness is also asked, on both runtimes, of a table of closure constructs that are steady on the pinned tree "
           "(lambdas applied on the spot, local letrec, pipes, tasks; in unit-returning and value-returning functions). A second table asks "
           "only 'runs to the end, nothing used after its release' of destructuring constructs over containers of boxed values.",
    "C13": "Three sub-lexicons (numbers and projection chains, comments and strings, operators) are explored deeper than the full alphabet.",
    "C14": "The form table includes comments at the start of a line before braces and commas.",
    "C16": "Transformations also include alpha-renaming of one rebinding binder (unshadow) and removing all indentation (flushleft).",
    "C17": "Positions include a global initialiser directly after a module; forms include a member name used without any import. "
           "The matrix is replayed under three naming schemes for the modules (plain, prefix-related, suffix-related names).",
    "C18": "Also: every parameter list of up to 2 (thorough: 3) parameters over {scalar, tuple, record} x direct call / call "
           "through a function handle / closure call.",
}
for _pid, _t in EXTRA.items():
    if _pid in CLAIMED:
        CLAIMED[_pid]["text"] = CLAIMED[_pid]["text"] + " " + _t

# fourth session
_LANG4 = ("Lang.tla / LangGen.tla also cover records (literal, field access, update, field assignment; initialisers run in the "
          "order they are written), closures handed to named functions and wrapped in further closures next to a captured "
          "variable, callee expressions with stateful call sites, two output channels")
EXTRA4 = {
    "C01": _LANG4 + "; arrays, numeric match and a recursive function are generated too (outside C02's list: back end against back end only). "
           "Layer (f): the state-site position table (inline and let-bound variants), VM against WASM.",
    "C02": _LANG4 + "; the random generator produces records as well. The state-site position table (lib/sitepos.py) compares a "
           "stateful call written inside any expression form with the same call bound by a let first (Lockstep.tla).",
    "C18": _LANG4 + ", arrays, numeric match and a recursive function (the latter three: generated Rust against the VM only), at budgets one rustc run per program allows; the state-site position table.",
    "C16": "Field names are renamed as well (Lang.RenameE and the source transformation); LangGen jobs over records whose initialisers "
           "assign a shared variable; the record table includes initialisers with side effects (literal, update, parameter pack) and "
           "record patterns (same / swapped order, annotated result types, global patterns); a block-scope table renames a binder "
           "declared inside a nested block (after a statement, in an if arm, a lambda body, ...) to the name of an outer variable.",
    "C07": "EditSwap.tla also has saves that carry two edits (delete a voice and insert another elsewhere; delete two voices).",
    "C03": "The state-site position table (lib/sitepos.py: a stateful call written in every sub-expression slot of every expression "
           "form, alone and next to further sites, in dsp and in a helper called twice) runs under the same contract.",
    "C05": "Every shape with a delay is also built with delay lengths that are not whole numbers; the recorded accesses of the "
           "state-site position table are validated against the published layout.",
    "C06": "Special values in the state cells (NaN, infinities, signed zeros, denormals, huge values in self / mem / delay / "
           "tuple-valued self), every split point, swapped against an uninterrupted twin.",
    "C08": "Displaced-survivor pairs: subtrees removed in front of a survivor and added behind it in one sibling list (and the "
           "mirror image), judged by MaximalAtRoot.",
    "C11": "One-shot multisets of 2-4 tasks are replayed in every order of the scheduling calls; all one-shot tasks of a "
           "configuration as one closure object that captures a parameter, scheduled at every task's time.",
    "C12": "Constructs in which a closure is scheduled while another reference to it stays in use.",
    "C14": "Comments on the trailing comma of a list, with a postfix operator or another comment behind the list.",
    "C15": "Sum types sharing constructor names; one program with its type declared in module a / b / c / at top level / in two "
           "modules and mentioned by its bare name.",
    "C17": "Three-level direct references (n::h::c from inside m by path / use / wildcard, from a sibling module, from the root) "
           "over the pub flags of all three levels.",
    "C10": "Templates whose hole stands inside the binder's own definition (let, function-valued let, letrec that does not call itself).",
    "C19": "Rounds in which all eight threads are consumers of the compiler's counters (fresh temporaries of the staging translation "
           "in lets over 16 sibling nested tuple patterns, type variables of many let-polymorphic definitions). An observation that differs "
           "from the solo one is confirmed by running its round again 40 times before it is reported.",
}
for _pid, _t in EXTRA4.items():
    if _pid in CLAIMED:
        CLAIMED[_pid]["text"] = CLAIMED[_pid]["text"] + " " + _t

checks = []
na = []
for p in props:
    pid = p["id"]
    if pid in CLAIMED:
        c = CLAIMED[pid]
        checks.append({
            "property_id": pid,
            "quick_cmd": f"./check {pid} --tier quick",
            "thorough_cmd": f"./check {pid} --tier thorough",
            "evidence_file": f"/verif/evidence/{pid}.json",
            "replay_cmd_template": f"./check {pid} --replay {{path}}",
            "engine": "tlc+mmverif",
            "level_claimed": {"category": c["category"], "text": c["text"], "design_ref": c["design_ref"]},
            "level_note": c["note"],
            "technique": c["technique"],
        })
    else:
        na.append({"property_id": pid,
                   "reason": NOT_YET.get(pid, "check not built yet in this round (designed in DESIGN.md §6; the specification applies)")})

m = {
    "version": 1,
    "setup_cmd": "cd /verif/harness && CARGO_NET_OFFLINE=true cargo build --offline",
    "hooks": {
        "guard": "cfg(mimium_verif)",
        "enable": "RUSTFLAGS --cfg mimium_verif via /verif/harness/.cargo/config.toml (the harness crate depends on /repo's crates by path)",
        "baseline_off_cmd": "cd /repo && cargo nextest run --workspace --no-fail-fast --tool-config-file pb:/w/lib/nextest.toml --profile pb --test-threads 8 --offline",
        "source_commits": [l.strip() for l in open(os.path.join(VERIF, "lib", "hook_commits.txt")) if l.strip()],
        "add_only": True,
    },
    "engines": [
        {"name": "tlc+mmverif", "path": "/verif/check",
         "serves_properties": [c["property_id"] for c in checks],
         "kind_free_text": "TLA+ specification suite under /verif/tla checked with TLC; Rust conformance harness /verif/harness "
                           "(replay of TLC-generated behaviours into the real code, trace validation of recorded executions)"},
    ],
    "checks": checks,
    "not_applicable": na,
    "notes": "See DESIGN.md. KNOWN_FINDINGS.txt lists pinned findings and fixed defects.",
}
json.dump(m, open(os.path.join(VERIF, "MANIFEST.json"), "w"), indent=1)
print("claimed", [c["property_id"] for c in checks])

"""C10 — macro expansion respects lexical scope across stages (hygiene).

Hygiene.tla spans a matrix of macro definitions and use sites over a two-name
alphabet (binder form of the template x name it binds x name the use site binds
x form of the spliced code x use-site form x f!(..) / $(f(..))); TLC visits every
cell, checks the property on the specification (RenamingInvariant: the cell
with the template binder renamed has the same samples) and prints each cell with
the samples Lang assigns to StagingCore's hygienic expansion.  Under
Mode = "name_based" TLC must find the violation (the invariant is not vacuous).
Replay: every cell runs on both back ends and must give the expected samples;
Lockstep.tla validates each cell against its renamed twin (B = t against B = u).
On the pinned tree expansion is name-based, so the cells in which the two names
coincide fail where the template binder encloses the hole: each is a pinned
finding identified by its source; the other cells must be clean."""
import json
import os

import langpipe
import printer
import vlib


# Templates outside Lang (letrec, binders in nested blocks / if arms / tuples): the property itself is checked -
# the program with the template binder named t against the one with the binder named u (Lockstep.tla).
# {B} is the template's binder, {A} the name the use site mentions.
TABLE_TEMPLATES = {
    "letrec_beside": "`{ { letrec {B} = |n| { if (n > 0) { n + {B}(n - 1) } else { 0 } }\n {B}(3) } + $c }",
    "letrec_enclosing": "`{ letrec {B} = |n| { if (n > 0) { n + {B}(n - 1) } else { 0 } }\n {B}(3) + $c }",
    "lambda_beside": "`{ (|{B}| {B} * 2)(10) + $c }",
    "let_in_if_arm": "`{ (if (1) { let {B} = 10\n {B} } else { 0 }) + $c }",
    "tuple_let_beside": "`{ { let ({B}, w) = (10, 20)\n {B} + w } + $c }",
    "let_after_splice": "`{ $c + { let {B} = 10\n {B} * 3 } }",
    "fnlet_beside": "`{ { let {B} = |v| v * 2\n {B}(5) } + $c }",
    "nested_block_let": "`{ { { let {B} = 10\n {B} } + 1 } * 2 + $c }",
    # the binder is mentioned by quoted code *inside a splice* of the template (a quotation nested in an escape)
    "let_nested_quote": "`{ { let {B} = 10\n $(idc(`({B} * 2))) } + $c }",
    "lambda_nested_quote": "`{ (|{B}| $(idc(`({B} + 1))))(10) + $c }",
    # the hole stands inside the binder's own definition: a `let` does not bind there at all; a `letrec` whose
    # definition does not call itself is an ordinary definition (the use site's name must not become a recursive call)
    "let_rhs_hole": "`{ { let {B} = $c + 1\n {B} * 2 } }",
    "fnlet_rhs_hole": "`{ { let {B} = |v| { v + $c }\n {B}(5) } }",
    "letrec_rhs_hole": "`{ { letrec {B} = |x| { if (x > 0.5) { $c } else { 0 } }\n {B}(1) } }",
    "letrec_rhs_hole_nested": "`{ { letrec {B} = |x| { let w = x * 2\n (|z| z + $c)(w) }\n {B}(1) } }",
    "letrec_nested_quote": "`{ { letrec {B} = |n| { if (n > 0) { n + {B}(n - 1) } else { 0 } }\n $(idc(`({B}(3)))) } + $c }",
}
TABLE_USES = {
    "global_fn": ("fn {A}(v){ v + 100 }\n", "m!(`{A}(1))"),
    "global_let": ("let {A} = 7\n", "m!(`({A} * 1))"),
    "local_let": ("", "{ let {A} = 5\n m!(`({A} + 0)) }"),
    "local_fn": ("", "{ let {A} = |v| v + 100\n m!(`{A}(1)) }"),
    # the name comes from a module: wildcard import, single import, qualified member next to an import
    "wild_import_fn": ("mod k {\n  pub fn {A}(v){ v + 100 }\n}\nuse k::*\n", "m!(`{A}(1))"),
    "use_import_fn": ("mod k {\n  pub fn {A}(v){ v + 100 }\n}\nuse k::{A}\n", "m!(`{A}(1))"),
    "wild_import_let": ("mod k {\n  pub fn {A}(v){ v + 100 }\n}\nuse k::*\n", "{ let w = {A}(2)\n m!(`(w + 0)) }"),
}


def table_cells():
    out = []
    for tn, tmpl in TABLE_TEMPLATES.items():
        for un, (defs, use) in TABLE_USES.items():
            for a in ("t", "u"):
                pair = []
                for b in ("t", "u"):
                    src = (f"{defs.replace('{A}', a)}#stage(macro)\n{'fn idc(x){ x }' + chr(10) if 'idc(' in tmpl else ''}fn m(c){{\n  {tmpl.replace('{B}', b)}\n}}\n#stage(main)\n"
                           f"fn dsp(){{\n  {use.replace('{A}', a)}\n}}\n")
                    pair.append(src)
                out.append((f"{tn}/{un}/A={a}", pair[0], pair[1], a))
    return out


def hyg_cfg(name, mode, invariants):
    path = os.path.join(vlib.TLA_DIR, name + ".cfg")
    with open(path, "w") as f:
        f.write(f'SPECIFICATION Spec\nCONSTANTS\n  Mode = "{mode}"\n')
        for i in invariants:
            f.write(f"INVARIANT {i}\n")
        f.write("CHECK_DEADLOCK FALSE\n")
    return name


def cell_id(c):
    return "/".join(str(c[k]) for k in ("bf", "B", "A", "af", "uf", "sg"))


def run(tier):
    chk = vlib.Check("C10", "model_checking", tier)
    vlib.build_harness()
    r = vlib.run_tlc("Hygiene", hyg_cfg("Hygiene_run", "hygienic", ("Emit", "RenamingInvariant")), workers=8, timeout=1200)
    if r.violation:
        raise vlib.ToolError("Hygiene.tla (hygienic expansion) violates its own invariant: " + vlib.tlc_error_trace(r.stdout)[:1500])
    chk.tlc(r, "Hygiene[hygienic]")
    reps = sorted(r.tagged["REPLAY"], key=lambda rep: cell_id(rep["cell"]))
    # non-vacuity: plain textual substitution must violate the invariant
    r2 = vlib.run_tlc("Hygiene", hyg_cfg("Hygiene_nb_run", "name_based", ("RenamingInvariant",)), workers=4, timeout=1200)
    if not r2.violation:
        raise vlib.ToolError("Hygiene.tla: name-based expansion satisfies RenamingInvariant - the invariant is vacuous")
    chk.tlc(r2, "Hygiene[name_based, violation expected]")
    chk.cov["name_based_expansion_violates_invariant"] = True

    reqs = []
    for i, rep in enumerate(reps):
        reqs.append({"id": i, "src": printer.program(rep["staged"]), "n": len(rep["expect"]), "backends": ["vm", "wasm"],
                     "sched": True})
    res = vlib.run_harness("run", reqs, timeout_per_req=10)
    outs = {}
    records, meta = [], {}
    for req, out, crash in res:
        rep = reps[req["id"]]
        cid = cell_id(rep["cell"])
        key = vlib.canon_key(req["src"])
        case = {"src": req["src"], "cell": rep["cell"], "expect": rep["expect"], "expanded": printer.program(rep["expanded"])}
        if crash or out is None:
            chk.violation(f"runtime process died on cell {cid}: {crash}\n{req['src']}", case, key=key)
            continue
        outs[cid] = out
        for be in ("vm", "wasm"):
            d = langpipe.compare_outputs(rep, out[be])
            if d:
                chk.violation(f"{be}: cell {cid}{' (names coincide)' if rep['coincide'] else ''}: {d}\n{req['src']}"
                              f"-- hygienic expansion --\n{case['expanded']}", dict(case, backend=be), key=key)
                break
    # the property itself on the implementation: a cell against its renamed twin
    for rep in reps:
        c = rep["cell"]
        if c["B"] != "t":
            continue
        twin = dict(c, B="u")
        a, b = outs.get(cell_id(c)), outs.get(cell_id(twin))
        if a is None or b is None:
            continue
        for be in ("vm", "wasm"):
            rid = f"{cell_id(c)}|{be}"
            records.append({"id": rid, "a": langpipe.side(a[be], with_words=False), "b": langpipe.side(b[be], with_words=False),
                            "cmpwords": False})
            meta[rid] = (c, twin)
    # templates outside Lang: binder named t against binder named u
    cells = table_cells()
    treqs = []
    for name, st_, su_, a in cells:
        treqs.append({"id": f"{name}|t", "src": st_, "n": 3, "backends": ["vm", "wasm"], "sched": True})
        treqs.append({"id": f"{name}|u", "src": su_, "n": 3, "backends": ["vm", "wasm"], "sched": True})
    tres = {req["id"]: (out, crash) for req, out, crash in vlib.run_harness("run", treqs, timeout_per_req=20)}
    for name, st_, su_, a in cells:
        (ot, ct), (ou, cu) = tres[f"{name}|t"], tres[f"{name}|u"]
        bad_src = st_ if a == "t" else su_            # the twin in which the two names coincide
        if ct or cu or ot is None or ou is None:
            chk.violation(f"runtime process died on table cell {name}: {ct or cu}\n{bad_src}", {"src": bad_src, "cell": name},
                          key=vlib.canon_key(bad_src))
            continue
        for be in ("vm", "wasm"):
            rid = f"table:{name}|{be}"
            sa, sb = langpipe.side(ot[be], with_words=False), langpipe.side(ou[be], with_words=False)
            for s_ in (sa, sb):
                if s_["status"] in ("reject", "error", "nodsp"):
                    s_["status"] = "refused"
            records.append({"id": rid, "a": sa, "b": sb, "cmpwords": False})
            meta[rid] = ({"table": name, "src": bad_src}, None)
    chk.cov["table_cells"] = len(cells)
    fails = langpipe.validate_lockstep(chk, records, "c10")
    srcs = {cell_id(rep["cell"]): printer.program(rep["staged"]) for rep in reps}
    for rid, f in fails.items():
        c, twin = meta[rid]
        if twin is None:
            chk.violation(f"{rid.split('|')[1]}: renaming the template binder changes the program ({f['what']} at step {f['at']}): "
                          f"table cell {c['table']}\n{c['src']}", {"src": c["src"], "cell": c["table"]}, key=vlib.canon_key(c["src"]))
            continue
        # reported under the cell whose names coincide (the same source the comparison with the specification names)
        bad = c if c["A"] == c["B"] else twin
        src = srcs[cell_id(bad)]
        chk.violation(f"{rid.split('|')[1]}: renaming the template binder changes the output ({f['what']} at step {f['at']}): "
                      f"cell {cell_id(c)} against {cell_id(twin)}\n{src}", {"src": src, "cell": bad}, key=vlib.canon_key(src))
    chk.cov["cells"] = len(reps)
    chk.cov["cells_with_coinciding_names"] = sum(1 for rep in reps if rep["coincide"])
    chk.cov["evaluations"] = len(reps)
    chk.cov["distinct_nontrivial"] = len({r_["src"] for r_ in reqs})
    chk.cov["rule"] = ("every cell of the matrix binder form x template binder name x use-site name x spliced-code form x use-site "
                       "form x call syntax (TLC, exhaustive); non-trivial = distinct program text")
    chk.cov["exhaustive"] = True
    chk.add_sample({"cell": reps[0]["cell"], "source": srcs[cell_id(reps[0]["cell"])], "expect": reps[0]["expect"]})
    chk.assumptions += ["two-name alphabet {t, u}: every coincidence pattern of two binders occurs",
                        "binder forms: let, tuple let, lambda parameter (letrec and match binders are not in Lang)"]
    return chk.finish()


def replay(path):
    case = json.load(open(path))["case"]
    out = vlib.run_harness("run", [{"id": 0, "src": case["src"], "n": 3, "backends": ["vm", "wasm"], "sched": True}])[0][1]
    print(case["src"])
    print("expected:", case.get("expect"))
    for be in ("vm", "wasm"):
        print(be, out[be].get("status"), out[be].get("out"), out[be].get("msg", ""), json.dumps(out[be].get("diags", ""))[:300])
    return 0

"""C04 — front end and compile entry points are total on arbitrary text.

LexGen.tla (the same bounded-exhaustive generator as C13, here over an
alphabet of *token classes*) makes TLC enumerate every token sequence up to a
length bound; each is rendered with three separator choices and handed to the
calls the language server makes on every edit (tokenize, parse_to_expr, the
server's analyze_source) and to the compile entry points of both back ends
(emit_bytecode, emit_wasm), every call in its own thread with a 2 MiB stack.
FrontendTrace.tla validates the recorded call/return events: every call returns
`ok` or `diags` (there is no action for panic / abort / timeout) and every span
lies inside the text on character boundaries.  Random and mutated program texts
(every prefix of small shipped files, token deletions / duplications, bracket
nesting up to the stated bound of 48, non-ASCII injection) use the same spec."""
import glob
import json
import os
import random
from concurrent.futures import ThreadPoolExecutor

import vlib

TOKENS = ["fn", "let", "if", "else", "self", "now", "x", "foo", "1", "2.5", "a.0.1", "\"s\"", "\"u", "// c", "/* u",
          "(", ")", "{", "}", "[", "]", ",", "=", "+", "-", "*", "|", "|>", "->", "=>", "@", "!", "`", "$", "#", "_",
          "..", ":", "::", "é", "\U0001F600", "match", "type", "use", "mod", "pub", "<", "&&", "."]
# phrase lexicons: whole declarations as classes, so that short sequences reach texts whose declarations refer
# to each other (modules re-exporting from one another, mutually recursive type aliases and functions, ...)
PHRASES = {
    "modules": ["mod a { pub use b::x }", "mod b { pub use a::x }", "mod a { pub fn x(){ 1 } }", "mod b { pub fn x(){ 2 } }",
                "mod a { pub use a::x }", "mod a { pub use b }", "use a::x", "use b::x", "use a::*", "use a::b",
                "fn dsp(){ a::x() }", "fn dsp(){ x() }", "fn dsp(){ b }", "pub use a::x"],
    "types": ["type alias A = B", "type alias B = A", "type alias A = (A, float)", "type rec L = N | C(float, L)", "type A = X(B)",
              "type B = Y(A)", "fn f(v:A){ v }", "fn g(v:B)->A{ v }", "fn dsp(){ f(1) }", "fn dsp(){ g(C(1, N)) }", "let v:A = 1",
              # aliases (also cyclic ones) mentioned by the payloads of sum types, directly and inside tuples / arrays
              "type alias A = A", "type alias B = [A]", "type T = V(A) | W", "type U = P((B, float)) | Q"],
    "functions": ["fn f(x){ g(x) }", "fn g(x){ f(x) }", "fn f(x){ f }", "let h = f", "let f = h", "fn dsp(){ f(1) }", "fn dsp(){ h(h) }",
                  "fn f(x){ self(x) }", "let (p, q) = (q, p)", "fn dsp(){ dsp }"],
}
PHRASE_LEN = {"quick": 3, "thorough": 4}
NEST_BOUND = 48
BOUND = {"quick": (28, 3), "thorough": (len(TOKENS), 3)}
APIS = ["tokenize", "parse", "analyze", "bytecode", "wasm"]


def gen_seqs(chk, ncls, maxlen, label="tokens"):
    path = os.path.join(vlib.TLA_DIR, "LexGen_c04_run.cfg")
    with open(path, "w") as f:
        f.write(f"SPECIFICATION Spec\nCONSTANTS\n  NClasses = {ncls}\n  MaxLen = {maxlen}\nINVARIANT Emit\nCHECK_DEADLOCK FALSE\n")
    r = vlib.run_tlc("LexGen", "LexGen_c04_run", workers=12, timeout=3000)
    if r.violation:
        raise vlib.ToolError("LexGen: " + r.violation)
    chk.tlc(r, f"LexGen[{label} {ncls}^<={maxlen}]")
    return [rep["t"] for rep in r.tagged["REPLAY"]]


def corpus(rng, tier):
    files = sorted(glob.glob(os.path.join(vlib.REPO, "examples", "*.mmm"))
                   + glob.glob(os.path.join(vlib.REPO, "crates/lib/mimium-test/tests/mmm", "*.mmm")))
    srcs = [open(f, encoding="utf-8").read() for f in files]
    out = []
    small = [t for t in srcs if len(t.encode()) < 500][: (8 if tier == "quick" else 60)]
    for t in small:                        # every intermediate editing state: all prefixes
        b = t.encode()
        for k in range(0, len(b)):
            try:
                out.append(b[:k].decode("utf-8"))
            except UnicodeDecodeError:
                pass
    for t in srcs:
        if len(t) < 10:
            continue
        for _ in range(2 if tier == "quick" else 12):
            i, j = sorted(rng.sample(range(len(t)), 2))
            op = rng.choice(["del", "dup", "swap", "inj"])
            if op == "del":
                out.append(t[:i] + t[j:])
            elif op == "dup":
                out.append(t[:j] + t[i:j] + t[j:])
            elif op == "swap":
                out.append(t[:i] + t[j:] + t[i:j])
            else:
                out.append(t[:i] + rng.choice(["é", "あ", "\U0001F600", "﻿", "\"", "/*"]) + t[i:])
    for _ in range(1500 if tier == "quick" else 50000):   # token soups
        n = rng.randint(1, 14)
        out.append(rng.choice(["", " ", "\n"]).join(rng.choice(TOKENS) for _ in range(n)))
    # nesting up to the stated bound
    for o, c in (("(", ")"), ("{", "}"), ("[", "]"), ("|x| ", "")):
        for d in (NEST_BOUND // 2, NEST_BOUND):
            out.append("fn dsp(){ " + o * d + "1" + c * d + " }")
            out.append(o * d)
    out.append("fn dsp(){ " + "if (1) { " * NEST_BOUND + "1" + " } else { 0 }" * NEST_BOUND + " }")
    out.append("fn dsp(){ " + "1 + " * 400 + "1 }")
    return out


def call_site(what):
    """'panic: <message> @ <file>:<line>' -> '<file>: <message>' with numbers blanked; None for other failures"""
    import re
    m = re.match(r"panic: (.*) @ (\S+?):\d+\s*$", what.strip(), flags=re.S)
    if not m:
        return None
    msg = re.sub(r"\d+", "N", m.group(1))[:160]
    return f"panic in {os.path.relpath(m.group(2), vlib.REPO) if m.group(2).startswith('/') else m.group(2)}: {msg}"


def to_events(rid, res):
    """call / return events of one text, as FrontendTrace reads them"""
    evs = []
    for api in APIS:
        r = res["res"].get(api)
        if r is None:
            continue
        spans = r.get("spans", []) if api != "analyze" else []
        evs.append({"api": api, "kind": r["kind"], "spans": spans, "msg": r.get("msg", "")[:160]})
    return {"id": rid, "len": res["len"], "bounds": res["bounds"], "calls": evs}


def validate(chk, records):
    step = 6000
    parts = [records[k:k + step] for k in range(0, len(records), step)]
    os.makedirs(vlib.WORK, exist_ok=True)

    def one(args):
        k, part = args
        path = os.path.join(vlib.WORK, f"front_{k}.ndjson")
        with open(path, "w") as f:
            for r in part:
                f.write(json.dumps(r) + "\n")
        try:
            r = vlib.run_tlc("FrontendTrace", workers=1, timeout=3000, env={"TRACE": path},
                             tags=("FAIL", "CONSUMED"), deque=True, xss=True, heap="4g")
        finally:
            os.unlink(path)
        if r.violation or not r.tagged["CONSUMED"] or r.tagged["CONSUMED"][0]["n"] != len(part):
            raise vlib.ToolError(f"FrontendTrace did not consume the whole trace: {r.violation}\n" + r.stdout[-1500:])
        return k, r
    fails = {}
    with ThreadPoolExecutor(max_workers=8) as ex:
        for k, r in ex.map(one, list(enumerate(parts))):
            chk.tlc(r, f"FrontendTrace[{k}]")
            chk.count("traces_validated_against_impl", len(parts[k]))
            for f_ in r.tagged["FAIL"]:
                fails.setdefault(f_["id"], f_)
    return fails


def run(tier):
    chk = vlib.Check("C04", "model_checking", tier)
    # the corpus is derived deterministically, independent of VERIF_SEED: on the pinned tree several
    # classes of texts fail (pinned findings, each by its specific text), and a seed-dependent corpus
    # would hit other members of the same classes
    rng = random.Random(20260924)
    vlib.build_harness()
    ncls, maxlen = BOUND[tier]
    texts = []
    for seq in gen_seqs(chk, ncls, maxlen):
        toks = [TOKENS[c - 1] for c in seq]
        for sep in ("", " ", "\n"):
            if len(toks) < 2 and sep:
                continue
            texts.append(sep.join(toks))
    for label, phrases in PHRASES.items():
        for seq in gen_seqs(chk, len(phrases), PHRASE_LEN[tier], label):
            texts.append("\n".join(phrases[c - 1] for c in seq) + "\n")
    nexh = len(texts)
    texts += corpus(rng, tier)
    pins = {}
    d = os.path.join(vlib.VERIF, "findings", "C04")
    if os.path.isdir(d):
        for fn in sorted(os.listdir(d)):
            if fn.endswith(".json"):
                c = json.load(open(os.path.join(d, fn)))
                pins[len(texts)] = c
                texts.append(c["text"])
    reqs = [{"id": i, "text": t} for i, t in enumerate(texts)]
    res = vlib.run_harness("front", reqs, timeout_per_req=3.0, chunk=1500)
    records = []
    for req, out, crash in res:
        t = texts[req["id"]]
        if crash or out is None:
            rid = req["id"]
            what = pins[rid]["what"] if rid in pins else \
                f"front end killed the process or hung ({'timeout' if crash and crash.get('timeout') else 'abort'}: " \
                f"{(crash or {}).get('stderr', '')[-160:]!r}) on text {t[:100]!r}"
            chk.violation(what, {"text": t}, key=pins[rid]["key"] if rid in pins else vlib.canon_key(t))
            continue
        records.append(to_events(req["id"], out))
    fails = validate(chk, records)
    for rid, f in fails.items():
        t = texts[rid]
        what = pins[rid]["what"] if rid in pins else f"{f['api']}: {f['what']} on text {t[:100]!r}"
        key = pins[rid]["key"] if rid in pins else vlib.canon_key(t)
        site = call_site(f["what"])
        if site and not chk.findings.is_known(key):
            # a panic is identified by its call site (source file and message, without line numbers): one finding per
            # site, whatever the text that reaches it; a panic at any other site is reported
            skey = "site:" + vlib.canon_key(site)
            if chk.findings.is_known(skey):
                what = chk.findings.known[skey]["what"]
            else:
                what = f"{f['api']}: {site} - e.g. on text {t[:100]!r}"
            key = skey
        chk.violation(what, {"text": t, "api": f["api"], "site": site}, key=key)
    chk.cov["texts_exhaustive"] = nexh
    chk.cov["texts_corpus"] = len(texts) - nexh
    chk.cov["apis"] = APIS
    chk.cov["nesting_bound"] = NEST_BOUND
    chk.cov["evaluations"] = len(texts) * len(APIS)
    chk.cov["distinct_nontrivial"] = len({t for t in texts if len(t) > 3})
    chk.cov["rule"] = (f"all sequences of <= {maxlen} tokens over {ncls} token classes x 3 separators (TLC, exhaustive) + prefixes and "
                       "mutations of shipped programs, token soups, nesting up to the bound; non-trivial = text longer than 3 bytes")
    chk.cov["exhaustive"] = True
    chk.add_sample({"text": texts[nexh // 2]})
    chk.assumptions += ["2 MiB thread stacks; bracket nesting bound 48; per-text time limit 3 s",
                        "the language server's diagnostics are line/character ranges: only their number is recorded"]
    return chk.finish()


def replay(path):
    case = json.load(open(path))["case"]
    out = vlib.run_harness("front", [{"id": 0, "text": case["text"]}])[0]
    print(repr(case["text"]))
    print(json.dumps(out[1] or out[2])[:3000])
    return 0

"""C01 — VM and WASM produce identical audio.

(a) integer fragment: the TLC-generated programs of LangGen (shared with C02) are
    replayed on both runtimes; each must equal the specification's outputs, and
    the pair is validated by Lockstep.tla (outputs and flat state words after
    every sample, bit for bit).
(b) beyond the fragment: shipped examples and fixtures and systematic mutants of
    them (literal and operator changes) are run on both runtimes with dsp inputs
    that include +-0, denormals, infinities and NaN; the recorded pairs are
    validated by Lockstep.tla. Accepted by one <=> accepted by the other is the
    first step of every trace."""
import glob
import json
import os
import re

import langpipe
import printer
import vlib

JOBS = {
    "quick": [
        ("f4", {"Template": '"f"', "Budget": 4}),
        ("dsp4in", {"Template": '"dsp"', "UseInput": "TRUE", "Budget": 4}),
        # stateful constructs inside if arms (every arm owns its cells)
        ("ifstate5", {"Template": '"f"', "Budget": 5, "Lits": "{1}", "Ops": '{"+"}',
                      "Helpers": '{"counter", "lag", "pacc"}',
                      "Prods": '{"now", "if", "mem", "delay", "ifp", "proj", "tup"}'}),
    ],
    "thorough": [
        ("ifstate6", {"Template": '"f"', "Budget": 6, "Lits": "{1}", "Ops": '{"+"}',
                      "Helpers": '{"counter", "lag", "pacc", "dl", "nest"}',
                      "Prods": '{"now", "if", "mem", "delay", "ifp", "proj", "tup"}'}),
        ("f5", {"Template": '"f"', "Budget": 5, "Lits": "{1, 2}", "Ops": '{"+", "*", "-"}'}),
        ("dsp5in", {"Template": '"dsp"', "UseInput": "TRUE", "Budget": 5, "Ops": '{"+", "*", "<"}'}),
        ("f4full", {"Template": '"f"', "Budget": 4, "Lits": "{0, 1, 3}",
                    "Ops": '{"+", "-", "*", "%", "<", "<=", ">", ">=", "==", "!=", "&&", "||"}'}),
    ],
}
NSAMPLES = {"quick": 64, "thorough": 1024}
MUT_PER_FILE = {"quick": 3, "thorough": 24}

SPECIAL_INPUTS = ["x0000000000000000", "x8000000000000000", "x0000000000000001", "x7ff0000000000000",
                  "xfff0000000000000", "x7ff8000000000000", 1, -1, "x3fe0000000000000", 3, "x4059000000000000", 0]


def shipped_files():
    fs = sorted(glob.glob(os.path.join(vlib.REPO, "examples", "*.mmm"))
                + glob.glob(os.path.join(vlib.REPO, "crates/lib/mimium-test/tests/mmm", "*.mmm")))
    return fs


_NUM = re.compile(r"(?<![\w.])(\d+\.?\d*)(?![\w.]*\()")
_OPS = [(" + ", " - "), (" - ", " + "), (" * ", " / "), (" / ", " * "), (" < ", " > "), (" > ", " < "), (" % ", " * ")]


def mutants(src, k):
    """deterministic mutants: the first k mutation sites (literals then operators), spread over the text"""
    code_lines = [(i, l) for i, l in enumerate(src.split("\n")) if not l.strip().startswith("//")]
    sites = []
    lines = src.split("\n")
    for i, l in code_lines:
        if l.strip().startswith(("include", "use ", "#", "type ")):
            continue
        for m in _NUM.finditer(l):
            sites.append(("num", i, m.start(1), m.end(1)))
        for a, b in _OPS:
            j = l.find(a)
            if j >= 0:
                sites.append(("op", i, j, j + len(a), b))
    if not sites:
        return []
    stepn = max(1, len(sites) // k)
    out = []
    for s in sites[::stepn][:k]:
        ls = list(lines)
        l = ls[s[1]]
        if s[0] == "num":
            old = l[s[2]:s[3]]
            new = {"0": "1", "1": "0", "2": "0.5"}.get(old, "0" if float(old) != 0 else "3")
            ls[s[1]] = l[:s[2]] + new + l[s[3]:]
        else:
            ls[s[1]] = l[:s[2]] + s[4] + l[s[3]:]
        out.append("\n".join(ls))
    return out


def pinned_cases():
    d = os.path.join(vlib.VERIF, "findings", "C01")
    out = []
    if os.path.isdir(d):
        for fn in sorted(os.listdir(d)):
            if fn.endswith(".json"):
                out.append(json.load(open(os.path.join(d, fn))))
    return out


def run(tier):
    chk = vlib.Check("C01", "translation_validation", tier)
    vlib.build_harness()
    records = []
    meta = {}
    nprog = 0
    nontrivial = set()
    # development aid (never set by a registered command): VERIF_DEV_LAYERS=e runs only the named layers
    dev = os.environ.get("VERIF_DEV_LAYERS")
    on = lambda layer: (not dev) or layer in dev
    if dev:
        chk.cov["dev_layers_only"] = dev
    # ---- (a) generated programs of the integer fragment
    for label, consts in ((JOBS[tier] + langpipe.ext_jobs(tier)) if on("a") else []):
        # delay times of zero samples are part of C01 (VM = WASM) although C02 says nothing about them
        reps = langpipe.generate(chk, label, dict({"DelayTimes": '"withzero"'}, **consts),
                                 timeout=3000)
        live = [(i, r) for i, r in enumerate(reps) if not r["oom"]]
        reqs = [langpipe.to_request(i, r) for i, r in live]
        res = vlib.run_harness("run", reqs, timeout_per_req=10)
        for req, out, crash in res:
            rep = reps[req["id"]]
            nprog += 1
            key = vlib.canon_key(req["src"])
            case = {"src": req["src"], "inputs": rep["inputs"], "job": label}
            if crash or out is None:
                chk.violation(f"runtime process died: {crash}\n{req['src']}", case, key=key)
                continue
            if not label.startswith("x_") and not any(", 0)" in l and "delay(" in l for l in req["src"].split("\n")):
                # (programs with a zero delay time, and the jobs over constructs outside C02's list - arrays, numeric
                # match -, are compared backend against backend only)
                for be in ("vm", "wasm"):
                    d = langpipe.compare_outputs(rep, out[be])
                    if d:
                        chk.violation(f"{be} differs from the specification: {d}\n{req['src']}", dict(case, backend=be), key=key)
            rid = f"{label}:{req['id']}"
            records.append({"id": rid, "a": langpipe.side(out["vm"]), "b": langpipe.side(out["wasm"]), "cmpwords": False})
            meta[rid] = (req["src"], case, key)
            if out["vm"].get("out") and any(row != out["vm"]["out"][0] for row in out["vm"]["out"]):
                nontrivial.add(key)
        if reps:
            s = reps[len(reps) // 2]
            chk.add_sample({"job": label, "source": printer.program(s["prog"])})

    # ---- (b) shipped sources and their mutants
    n = NSAMPLES[tier]
    files = shipped_files() if on("b") else []
    reqs = []
    pinned_files = {c.get("file") for c in pinned_cases() if c.get("file")}
    for f in files:
        src = open(f).read()
        base = os.path.basename(f)
        rel = os.path.relpath(f, vlib.REPO)
        # no mutants of a file that is itself a pinned finding (they would only repeat it)
        ms = [] if rel in pinned_files else mutants(src, MUT_PER_FILE[tier])
        cands = [(base, src)] + [(f"{base}#m{j}", m) for j, m in enumerate(ms)]
        for name, s in cands:
            inputs = [[SPECIAL_INPUTS[(t + c) % len(SPECIAL_INPUTS)] for c in range(4)] for t in range(n)]
            reqs.append({"id": name, "src": s, "n": n, "path": f, "backends": ["vm", "wasm"], "sched": True,
                         "inputs": inputs})
    res = vlib.run_harness("run", reqs, timeout_per_req=60, chunk=6)
    for req, out, crash in res:
        nprog += 1
        key = vlib.canon_key(req["src"])
        case = {"src": req["src"], "file": req["path"], "name": req["id"]}
        if crash or out is None:
            if "#m" in str(req["id"]):
                # a mutant that kills the process (unbounded recursion, ...) cannot be compared; C03's matter
                chk.count("mutants_not_comparable")
                continue
            chk.violation(f"runtime process died on {req['id']}: {crash}", case, key=key)
            continue
        v, w = out["vm"], out["wasm"]
        # a panic is not an answer either backend may give (C03); for C01 only the agreement counts
        rid = f"file:{req['id']}"
        a, b = langpipe.side(v), langpipe.side(w)
        for s_ in (a, b):
            if s_["status"] in ("reject", "nodsp", "error"):
                s_["status"] = "refused"
            if s_["status"] in ("panic", "dsp_error"):
                s_["status"] = "failed at run time"     # that it fails at all is C03's matter
        records.append({"id": rid, "a": a, "b": b, "cmpwords": False})
        meta[rid] = (req["id"], case, key)
        if v.get("status") == "ok" and v.get("out") and any(row != v["out"][0] for row in v["out"]):
            nontrivial.add(key)
    chk.cov["shipped_files"] = len(files)
    chk.cov["mutants"] = len(reqs) - len(files)

    # ---- (c) numeric literals: every literal must be the same number on both runtimes
    lits = []
    for m in ("1", "3", "7", "11", "123", "999", "1024", "65504", "65505", "70000"):
        for sc in ("", "0.", "0.0", "0.00", "0.000", "0.0000", "0.00000", "0.000000", "0.00000000", "."):
            lits.append((sc + m) if sc != "." else (m + ".5"))
    lits += ["0.1", "0.2", "0.3", "0.001", "0.0001", "3.14159265358979", "2.718281828459045", "6.283185307179586",
             "440", "44100", "48000", "0.5", "0.25", "0.333333333333", "1000000", "4294967296", "9007199254740993",
             "0.00001", "0.000009", "12345.678", "0.99999", "1.00001", "2047.9", "2049", "4097", "32769"]
    lreqs = []
    for i, l in enumerate(lits if on("c") else []):
        lreqs.append({"id": f"lit{i}", "src": f"fn dsp(){{ ({l}, now * {l} + {l}, 0 - {l}) }}\n", "n": 4,
                      "backends": ["vm", "wasm"], "sched": True})
    for req, out, crash in vlib.run_harness("run", lreqs, timeout_per_req=20):
        nprog += 1
        key = vlib.canon_key(req["src"])
        if crash or out is None:
            chk.violation(f"runtime process died on {req['src']}: {crash}", {"src": req["src"]}, key=key)
            continue
        rid = f"lit:{req['id']}"
        records.append({"id": rid, "a": langpipe.side(out["vm"]), "b": langpipe.side(out["wasm"]), "cmpwords": False})
        meta[rid] = (req["src"], {"src": req["src"]}, key)
        nontrivial.add(key)
    chk.cov["literals"] = len(lits)

    # ---- (d) every numeric builtin and operator on a grid of special values (ties, signed zeros, denormals,
    #         infinities, NaN, large magnitudes), through dsp's inputs
    grid = ["x0000000000000000", "x8000000000000000", "x3fe0000000000000", "xbfe0000000000000", "x3ff8000000000000",
            "xbff8000000000000", "x4004000000000000", "xc004000000000000", "x400c000000000000", 1, -1, 2, 3, -3, 7,
            "x0000000000000001", "x7ff0000000000000", "xfff0000000000000", "x7ff8000000000000", "x7e37e43c8800759c",
            "x3fb999999999999a", "x4059000000000000", "x41dfffffffc00000", "xc1e0000000000000", "x3cb0000000000000"]
    unary = ["round", "floor", "ceil", "abs", "sqrt", "sin", "cos", "tan", "sinh", "cosh", "tanh", "asin", "acos", "atan",
             "log", "-", "not"]
    binary = ["+", "-", "*", "/", "%", "^", "<", "<=", ">", ">=", "==", "!=", "&&", "||", "min", "max", "atan2", "pow"]
    breqs = []
    for f in unary:
        e = f"({f}x)" if f == "-" else f"{f}(x)"
        breqs.append({"id": f"un:{f}", "src": f"fn dsp(x){{ ({e}, {e} * 0.5 + 1, if ({e}) {{ 1 }} else {{ 2 }}) }}\n", "n": len(grid),
                      "backends": ["vm", "wasm"], "sched": True, "inputs": [[g] for g in grid]})
    breqs.append({"id": "index", "src": "fn dsp(x){\n  let a = [10, 20, 30]\n  let b = [(1, 2), (3, 4)]\n  (a[x], b[x].1)\n}\n", "n": len(grid),
                  "backends": ["vm", "wasm"], "sched": True, "inputs": [[g] for g in grid]})
    # a numeric match casts its scrutinee to an integer: which arm a value selects must not depend on the runtime
    breqs.append({"id": "match", "src": "fn dsp(x){\n  (match (x) { 0 => 5, 1 => 6, 2 => 8, _ => 7 }, match (x * 2) { 0 => 1, 3 => 2, _ => 3 })\n}\n",
                  "n": len(grid), "backends": ["vm", "wasm"], "sched": True, "inputs": [[g] for g in grid]})
    pairs = [(a, b) for i, a in enumerate(grid) for j, b in enumerate(grid) if (i * 7 + j * 3) % 5 == 0]
    for f in binary:
        e = f"{f}(x, y)" if f[0].isalpha() else f"(x {f} y)"
        breqs.append({"id": f"bin:{f}", "src": f"fn dsp(p:(float,float)){{\n  let (x, y) = p\n  ({e}, {e} + 0)\n}}\n", "n": len(pairs),
                      "backends": ["vm", "wasm"], "sched": True, "inputs": [[a, b] for a, b in pairs]})
    for req, out, crash in vlib.run_harness("run", breqs if on("d") else [], timeout_per_req=30):
        nprog += 1
        key = vlib.canon_key(req["src"])
        if crash or out is None:
            chk.violation(f"runtime process died on {req['src']}: {crash}", {"src": req["src"]}, key=key)
            continue
        if out["vm"].get("status") != "ok":
            raise vlib.ToolError(f"builtin table entry {req['id']} does not run on the VM: {out['vm'].get('status')} {out['vm'].get('msg', '')}")
        rid = f"builtin:{req['id']}"
        records.append({"id": rid, "a": langpipe.side(out["vm"]), "b": langpipe.side(out["wasm"]), "cmpwords": False})
        meta[rid] = (req["src"], {"src": req["src"], "inputs": req["inputs"]}, key)
        nontrivial.add(key)
    chk.cov["builtin_table"] = len(breqs)

    # ---- (e) order of scheduled tasks: tasks whose effects do not commute (x = x * 2 + i), scheduled from global scope
    #         in every order of deadlines - also several for the same sample, also after a task with a later deadline.
    #         Which of two tasks due at the same sample runs first is left open by the scheduler's contract (C11), but
    #         it must be the same on both runtimes: "with or without the scheduler".
    import itertools
    sreqs = []
    times = (2, 3, 5)
    combos = [c for k in (2, 3, 4) for c in itertools.product(times, repeat=k)]
    if tier == "thorough":
        combos += list(itertools.product(times, repeat=5)) + list(itertools.product((1, 2, 2.5, 2.75, 4), repeat=3))
    for ci, combo in enumerate(combos if on("e") else []):
        src = "let x = 1\n" + "".join(f"fn t{i}(){{\n  x = x * 2 + {i + 1}\n}}\n" for i in range(len(combo)))
        src += "".join(f"t{i}@{t}\n" for i, t in enumerate(combo)) + "fn dsp(){\n  x\n}\n"
        sreqs.append({"id": f"sched{ci}", "src": src, "n": 8, "backends": ["vm", "wasm"], "sched": True})
    for req, out, crash in vlib.run_harness("run", sreqs, timeout_per_req=20):
        nprog += 1
        key = vlib.canon_key(req["src"])
        if crash or out is None:
            chk.violation(f"runtime process died on {req['src']}: {crash}", {"src": req["src"]}, key=key)
            continue
        rid = f"sched:{req['id']}"
        records.append({"id": rid, "a": langpipe.side(out["vm"]), "b": langpipe.side(out["wasm"]), "cmpwords": False})
        meta[rid] = (req["src"], {"src": req["src"]}, key)
        nontrivial.add(key)
    chk.cov["task_order_programs"] = len(sreqs)

    # ---- (f) the state-site position table (lib/sitepos.py): a stateful call in every sub-expression slot of every form,
    # inline and let-bound, VM against WASM with the flat state words after every sample
    import sitepos
    treqs = []
    for name, inline, ref in sitepos.programs():
        treqs.append({"id": name + "|inline", "src": inline, "n": 8, "backends": ["vm", "wasm"], "sched": True})
        treqs.append({"id": name + "|ref", "src": ref, "n": 8, "backends": ["vm", "wasm"], "sched": True})
    for req, out, crash in (vlib.run_harness("run", treqs, timeout_per_req=20) if on("f") else []):
        key = vlib.canon_key(req["src"])
        if crash or out is None:
            chk.violation(f"runtime process died on {req['id']}: {crash}\n{req['src']}", {"src": req["src"]}, key=key)
            continue
        rid = f"site:{req['id']}"
        records.append({"id": rid, "a": langpipe.side(out["vm"]), "b": langpipe.side(out["wasm"]), "cmpwords": False})
        meta[rid] = (req["src"], {"src": req["src"]}, key)
        nontrivial.add(key)
    chk.cov["site_position_programs"] = len(treqs)

    # ---- pinned findings (specific inputs)
    pins = pinned_cases()
    preqs = []
    for i, c in enumerate(pins):
        src = c.get("src") or open(os.path.join(vlib.REPO, c["file"])).read()
        r = {"id": i, "src": src, "n": c.get("n", 16), "backends": ["vm", "wasm"], "sched": True, "rec": {"words": True}}
        if c.get("file") or c.get("path_of"):
            r["path"] = os.path.join(vlib.REPO, c.get("file") or c["path_of"])
        if c.get("inputs"):
            r["inputs"] = c["inputs"]
        preqs.append(r)
    for req, out, crash in vlib.run_harness("run", preqs, timeout_per_req=60, jobs=4):
        c = pins[req["id"]]
        rid = f"pin:{req['id']}"
        if crash or out is None:
            chk.violation(c["what"], {"src": req["src"]}, key=c["key"])
            continue
        a, b = langpipe.side(out["vm"]), langpipe.side(out["wasm"])
        for s_ in (a, b):
            if s_["status"] in ("reject", "nodsp", "error"):
                s_["status"] = "refused"
        records.append({"id": rid, "a": a, "b": b, "cmpwords": False})
        meta[rid] = (c["what"], {"src": req["src"]}, c["key"])

    fails = langpipe.validate_lockstep(chk, records, "c01")
    for rid, f in fails.items():
        name, case, key = meta[rid]
        what = name if rid.startswith("pin:") else \
            f"VM and WASM differ ({f['what']} at step {f['at']}) on {name if rid.startswith('file:') else ''}\n" \
            + (case.get("src", "")[:1500])
        chk.violation(what, case, key=key)
    # a pinned finding that is also part of the corpus is reported under its own key only once (same key)
    chk.cov["programs"] = nprog
    chk.cov["disagreements_checked"] = len(records)
    chk.cov["evaluations"] = nprog
    chk.cov["distinct_nontrivial"] = len(nontrivial)
    chk.cov["rule"] = ("TLC-enumerated programs (exhaustive per job) + shipped sources + systematic mutants; "
                       "non-trivial = distinct source whose VM output stream is not constant")
    chk.assumptions += ["device plugins are not loaded (examples that need them are compared on accept/reject only)",
                        "mutants are derived deterministically (independent of the seed)"]
    return chk.finish()


def replay(path):
    case = json.load(open(path))["case"]
    req = {"id": "replay", "src": case["src"], "n": 16, "rec": {"words": True}}
    if case.get("file"):
        req["path"] = case["file"]
    out = vlib.run_harness("run", [req], timeout_per_req=60)[0][1]
    print(case["src"][:2000])
    for be in ("vm", "wasm"):
        print(be, out[be].get("status"), out[be].get("out"), out[be].get("msg", ""))
    return 0

"""C02 — call-by-value semantics with per-call-site state.

spec -> impl: LangGen.tla enumerates every well-typed body up to a token budget
(two templates), Lang.tla computes the expected output stream, both back ends
are replayed and compared sample by sample.
impl -> spec: larger random programs (genprog.py) are run on both back ends and
the recorded runs are validated by LangTrace.tla."""
import json
import os
import random

import genprog
import langpipe
import printer
import vlib

# a local variable that an open closure reads and assigns, next to reads and assignments of the body itself:
# operands and arguments are evaluated left to right, a value read before a call is not affected by the call
CLO = {"Template": '"clo"', "Lits": "{2}", "Ops": '{"+", "*"}', "Helpers": "{}", "Prods": '{"app", "asg", "let"}'}
SHADOW = {"Template": '"f"', "Lits": "{1}", "Ops": '{"+"}', "Helpers": "{}", "Prods": '{"let", "letsh", "asg", "now", "if"}'}
JOBS = {
    "quick": [
        # lets that bind a name of an enclosing scope again (lexical scope of nested blocks)
        ("shadow5", dict(SHADOW, Budget=5)),
        ("clo7", dict(CLO, Budget=7)),
        ("f4", {"Template": '"f"', "Budget": 4}),
        ("dsp4in", {"Template": '"dsp"', "UseInput": "TRUE", "Budget": 4}),
        # stateful constructs inside if arms (every arm owns its cells)
        ("ifstate5", {"Template": '"f"', "Budget": 5, "Lits": "{1}", "Ops": '{"+"}',
                      "Helpers": '{"counter", "lag", "pacc"}',
                      "Prods": '{"now", "if", "mem", "delay", "ifp", "proj", "tup"}'}),
    ],
    "thorough": [
        ("shadow6", dict(SHADOW, Budget=6)),
        ("clo8", dict(CLO, Budget=8)),
        ("ifstate6", {"Template": '"f"', "Budget": 6, "Lits": "{1}", "Ops": '{"+"}',
                      "Helpers": '{"counter", "lag", "pacc", "dl", "nest"}',
                      "Prods": '{"now", "if", "mem", "delay", "ifp", "proj", "tup"}'}),
        ("f5", {"Template": '"f"', "Budget": 5, "Lits": "{1, 2}", "Ops": '{"+", "*", "-"}'}),
        ("dsp5in", {"Template": '"dsp"', "UseInput": "TRUE", "Budget": 5, "Ops": '{"+", "*", "<"}'}),
        ("f4full", {"Template": '"f"', "Budget": 4, "Lits": "{0, 1, 3}",
                    "Ops": '{"+", "-", "*", "%", "<", "<=", ">", ">=", "==", "!=", "&&", "||"}'}),
    ],
}
NRANDOM = {"quick": 300, "thorough": 5000}


def body_of(rep):
    fns = rep["prog"]["fns"]
    return printer.block((fns.get("f") or fns["dsp"])["b"], 0).replace("\n", " ")


def pinned(chk, pid):
    """re-run the pinned inputs of listed findings; returns requests + expectations"""
    d = os.path.join(vlib.VERIF, "findings", pid)
    out = []
    if os.path.isdir(d):
        for fn in sorted(os.listdir(d)):
            if fn.endswith(".json"):
                c = json.load(open(os.path.join(d, fn)))
                if c.get("kind") == "lang":
                    out.append(c)
    return out


def run(tier):
    chk = vlib.Check("C02", "model_checking", tier)
    rng = random.Random(vlib.seed())
    vlib.build_harness()
    distinct = set()
    nprog = 0
    for label, consts in ([] if os.environ.get("C02_ONLY") == "random" else JOBS[tier] + langpipe.EXT_CORE[tier]):
        reps = langpipe.generate(chk, label, consts, timeout=3000)
        if label.startswith("clo"):
            # the programs that call the closure (the others are plain arithmetic, covered by the other jobs)
            reps = [r for r in reps if "bump(" in printer.program(r["prog"]).split("}\n", 1)[1]]
        live = [(i, r) for i, r in enumerate(reps) if not r["oom"]]
        chk.count("out_of_model_programs", len(reps) - len(live))
        reqs = [langpipe.to_request(i, r) for i, r in live]
        res = vlib.run_harness("run", reqs, timeout_per_req=10)
        for req, out, crash in res:
            rep = reps[req["id"]]
            case = {"src": req["src"], "inputs": rep["inputs"], "expect": rep["expect"], "job": label}
            nprog += 1
            if crash or out is None:
                chk.violation(f"runtime process died on a generated program: {crash}\n{req['src']}", case,
                              key=vlib.canon_key(req["src"]))
                continue
            for be in ("vm", "wasm"):
                d = langpipe.compare_outputs(rep, out[be])
                if d:
                    chk.violation(f"{be}: {d}\n{req['src']}", dict(case, backend=be), key=vlib.canon_key(req["src"]))
            if any(rep["expect"][0] != row for row in rep["expect"]):
                distinct.add(body_of(rep) + str(rep["inputs"][:2]))
        if reps:
            s = reps[len(reps) // 2]
            chk.add_sample({"job": label, "source": printer.program(s["prog"]), "inputs": s["inputs"], "expect": s["expect"]})
    chk.cov["programs_replayed"] = nprog

    # impl -> spec
    fns, sig = langpipe.prelude()
    progs = [genprog.random_program(rng, fns, sig, rng.choice([12, 20, 40])) for _ in range(NRANDOM[tier])]
    n = 8
    reqs = []
    for i, p in enumerate(progs):
        nin = len(p["fns"]["dsp"]["ps"])
        inputs = [rng.choice([0, 1, 2, 3, -1]) for _ in range(n)]
        # VM only: C02 is anchored in the VM pipeline; VM = WASM is C01's statement
        req = {"id": i, "src": printer.program(p), "n": n, "backends": ["vm"], "sched": True}
        if nin:
            req["inputs"] = [[v] for v in inputs]
        req["_inputs"] = inputs
        reqs.append(req)
    res = vlib.run_harness("run", [{k: v for k, v in r.items() if k != "_inputs"} for r in reqs], timeout_per_req=10)
    records = []
    meta = {}
    for (req, out, crash), full in zip(res, reqs):
        p = progs[req["id"]]
        case = {"src": req["src"], "inputs": full["_inputs"]}
        if crash or out is None:
            chk.violation(f"runtime process died on a random program: {crash}\n{req['src']}", case, key=vlib.canon_key(req["src"]))
            continue
        for be in ("vm",):
            b = out[be]
            if b.get("status") != "ok":
                chk.violation(f"{be}: random well-typed program not executed: status={b.get('status')} "
                              f"{b.get('msg', '')[:200]} {json.dumps(b.get('diags', ''))[:300]}\n{req['src']}",
                              dict(case, backend=be), key=vlib.canon_key(req["src"]))
                continue
            rid = f"{req['id']}:{be}"
            if any(isinstance(v, str) for row in langpipe.norm_out(b["out"]) for v in row):
                chk.violation(f"{be}: non-integral output in the integer fragment: {b['out']}\n{req['src']}",
                              dict(case, backend=be), key=vlib.canon_key(req["src"]))
                continue
            records.append({"id": rid, "prog": p, "inputs": full["_inputs"], "out": langpipe.norm_out(b["out"])})
            meta[rid] = (req["src"], b["out"], case)
    fails = langpipe.validate_lang_traces(chk, records, "c02")
    noom = 0
    for rid, f in fails.items():
        if f.get("oom"):
            noom += 1
            continue
        src, got, case = meta[rid]
        chk.violation(f"{rid.split(':')[1]}: recorded run is not a behaviour of Lang.tla: sample {f['at']} "
                      f"expected {f['expected']} got {got[f['at']] if f['at'] < len(got) else '?'}\n{src}",
                      dict(case, backend=rid.split(':')[1]), key=vlib.canon_key(src))
    chk.cov["random_programs"] = len(progs)
    chk.cov["random_out_of_model"] = noom
    if progs:
        chk.add_sample({"job": "random", "source": printer.program(progs[0])})

    # ---- state-site positions (forms outside Lang): a stateful call written in a sub-expression slot of any form
    # against the same program with the call bound by a let first; Lockstep.tla validates inline against reference
    import sitepos
    sprogs = sitepos.programs()
    sreqs = []
    for name, inline, ref in sprogs:
        sreqs.append({"id": name + "|inline", "src": inline, "n": 8, "backends": ["vm", "wasm"], "sched": True})
        sreqs.append({"id": name + "|ref", "src": ref, "n": 8, "backends": ["vm", "wasm"], "sched": True})
    sby = {req["id"]: (out, crash) for req, out, crash in vlib.run_harness("run", sreqs, timeout_per_req=20)}
    srecords, smeta = [], {}
    for name, inline, ref in sprogs:
        (a, ca), (b, cb) = sby[name + "|inline"], sby[name + "|ref"]
        case = {"src": inline, "reference": ref, "name": name}
        if ca or cb or a is None or b is None:
            chk.violation(f"runtime process died on {name}: {ca or cb}\n{inline}", case, key=vlib.canon_key(inline))
            continue
        for be in ("vm", "wasm"):
            if b[be].get("status") != "ok":
                raise vlib.ToolError(f"site table: the reference variant of {name} does not run on {be}: {b[be].get('status')} "
                                     f"{b[be].get('msg', '')[:200]} {json.dumps(b[be].get('diags', ''))[:300]}")
            rid = f"{name}|{be}"
            srecords.append({"id": rid, "a": langpipe.side(b[be], False), "b": langpipe.side(a[be], False), "cmpwords": False})
            smeta[rid] = (case, be)
    for rid, f in langpipe.validate_lockstep(chk, srecords, "c02site").items():
        case, be = smeta[rid]
        chk.violation(f"{be}: {rid.split('|')[0]}: a stateful call written inside the form computes other samples than the same "
                      f"call bound by a let first ({f['what']} at step {f['at']})\n{case['src']}", dict(case, backend=be),
                      key=vlib.canon_key(case["src"]))
    chk.cov["site_position_programs"] = len(sprogs)

    # pinned findings
    pins = pinned(chk, "C02")
    if pins:
        reqs = [{"id": i, "src": c["src"], "n": len(c["expect"]), "backends": ["vm", "wasm"], "sched": True,
                 **({"inputs": [[v] for v in c["inputs"]]} if c.get("inputs") else {})} for i, c in enumerate(pins)]
        for req, out, crash in vlib.run_harness("run", reqs, timeout_per_req=10, jobs=4):
            c = pins[req["id"]]
            rep = {"expect": c["expect"]}
            bad = crash or any(langpipe.compare_outputs(rep, out[be]) for be in ("vm", "wasm"))
            if bad:
                chk.violation(c["what"], {"src": c["src"]}, key=c["key"])

    chk.cov["evaluations"] = nprog + len(progs)
    chk.cov["distinct_nontrivial"] = len(distinct)
    chk.cov["rule"] = ("every well-typed body up to the token budget over the enabled productions (TLC, exhaustive per job) "
                       "+ seeded random programs; non-trivial = distinct body whose expected output stream is not constant")
    chk.cov["exhaustive"] = True
    chk.assumptions += ["integer fragment only (values beyond +-1e8 mark the program out of model)",
                        "the source printer (lib/printer.py) and the JSON codec are trusted",
                        "clean-fragment switches off: stateful constructs in if arms / lambdas, projection as function result (pinned findings)"]
    return chk.finish()


def replay(path):
    case = json.load(open(path))["case"]
    req = {"id": "replay", "src": case["src"], "n": len(case.get("expect", [])) or 8}
    if case.get("inputs") and "dsp(x)" in case["src"]:
        req["inputs"] = [[v] for v in case["inputs"]]
    out = vlib.run_harness("run", [req])[0][1]
    print(case["src"])
    print("expected:", case.get("expect"))
    for be in ("vm", "wasm"):
        print(be, out[be].get("status"), out[be].get("out"), out[be].get("msg", ""))
    return 0

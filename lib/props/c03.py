"""C03 — programs accepted by the type checker run without crashes or memory errors.

RuntimeTrace.tla is the outcome contract of a compile-and-run session: rejected
with diagnostics, or accepted and then every dsp call returns exactly the
declared number of output words; there is no action for panic / abort / hang.
With the hooks in strict mode every instrumented access of the state storage is
checked against its capacity and turned into an abnormal end instead of
undefined behaviour, so a trace with an out-of-range access is not a behaviour
of the specification.

Inputs: the LangGen programs (TLC, exhaustive per budget), *near-miss* programs
obtained from them by type-changing mutations (scalar -> tuple, arity change,
function where a number is expected, unit-valued if arm, empty and 17-element
tuples, stateful call moved to global scope, ...), the shipped sources and the
pinned inputs.  Mutants the checker rejects must be rejected with diagnostics;
mutants it accepts must run safely."""
import copy
import glob
import json
import os
from concurrent.futures import ThreadPoolExecutor

import langpipe
import printer
import vlib

NS = {"quick": 24, "thorough": 256}


# ---- type-changing mutations on the JSON AST --------------------------------------------------
def subexprs(e, path=()):
    if isinstance(e, dict):
        if "k" in e:
            yield path, e
        for k, v in e.items():
            yield from subexprs(v, path + (k,))
    elif isinstance(e, list):
        for i, v in enumerate(e):
            yield from subexprs(v, path + (i,))


def setp(root, path, v):
    for k in path[:-1]:
        root = root[k]
    root[path[-1]] = v


LIT1 = {"k": "lit", "v": 1}
REPLACEMENTS = [
    ("tuple_for_scalar", lambda e: {"k": "tup", "es": [e, LIT1]}),
    ("empty_tuple", lambda e: {"k": "tup", "es": []}),
    ("tuple17", lambda e: {"k": "tup", "es": [LIT1] * 17}),
    ("lambda_for_scalar", lambda e: {"k": "lam", "ps": ["q"], "b": e}),
    ("proj_of_scalar", lambda e: {"k": "proj", "a": e, "i": 0}),
    ("call_scalar", lambda e: {"k": "app", "f": e, "as": [LIT1]}),
    ("unit_if", lambda e: {"k": "raw", "s": "(if (now) { " + printer.expr(e) + " })"}),
    ("nested_tuple_proj", lambda e: {"k": "proj", "a": {"k": "proj", "a": {"k": "tup", "es": [{"k": "tup", "es": [e, LIT1]}, LIT1]}, "i": 0}, "i": 0}),
    ("extra_arg", None), ("missing_arg", None),
]


def mutants(prog, limit):
    """deterministic: for the generated function body, every mutation operator at the first `limit`
    positions in prefix order"""
    out = []
    fn = "f" if "f" in prog["fns"] else "dsp"
    body = prog["fns"][fn]["b"]
    sites = [(p, e) for p, e in subexprs(body)][:limit]
    for p, e in sites:
        for name, rep in REPLACEMENTS:
            m = copy.deepcopy(prog)
            if rep is not None:
                new = rep(copy.deepcopy(e))
            elif e.get("k") == "call" and name == "extra_arg":
                new = dict(copy.deepcopy(e), **{"as": copy.deepcopy(e["as"]) + [LIT1]})
            elif e.get("k") == "call" and name == "missing_arg" and e["as"]:
                new = dict(copy.deepcopy(e), **{"as": copy.deepcopy(e["as"])[:-1]})
            else:
                continue
            if p:
                setp(m["fns"][fn]["b"], p, new)
            else:
                m["fns"][fn]["b"] = new
            out.append((name, m))
    return out


def to_records(rid, out):
    recs = []
    for be in ("vm", "wasm"):
        if be not in out:
            continue
        b = out[be]
        st = b.get("status")
        if st == "reject":
            comp, run = "rejected", []
        elif st in ("ok", "nodsp"):
            comp = "ok"
            run = [{"kind": "ok", "words": len(row)} for row in b.get("out", [])]
        elif st == "panic" and b.get("phase") in ("build", None) and not b.get("out"):
            comp, run = "panic: " + b.get("msg", "")[:150], []
        elif st == "error":
            comp, run = "error: " + b.get("msg", "")[:150], []
        else:
            comp = "ok"
            run = [{"kind": "ok", "words": len(row)} for row in b.get("out", [])]
            run.append({"kind": f"{st}: {b.get('msg', '')[:150]}", "words": 0})
        recs.append({"id": f"{rid}|{be}", "compile": comp, "nout": b.get("nout") or 0, "run": run})
    return recs


def validate(chk, records):
    step = 4000
    parts = [records[k:k + step] for k in range(0, len(records), step)]
    os.makedirs(vlib.WORK, exist_ok=True)

    def one(args):
        k, part = args
        path = os.path.join(vlib.WORK, f"rt_{k}.ndjson")
        with open(path, "w") as f:
            for r in part:
                f.write(json.dumps(r) + "\n")
        try:
            r = vlib.run_tlc("RuntimeTrace", workers=1, timeout=3000, env={"TRACE": path},
                             tags=("FAIL", "CONSUMED"), deque=True, xss=True, heap="4g")
        finally:
            os.unlink(path)
        if r.violation or not r.tagged["CONSUMED"] or r.tagged["CONSUMED"][0]["n"] != len(part):
            raise vlib.ToolError(f"RuntimeTrace did not consume the whole trace: {r.violation}\n" + r.stdout[-1500:])
        return k, r
    fails = {}
    with ThreadPoolExecutor(max_workers=8) as ex:
        for k, r in ex.map(one, list(enumerate(parts))):
            chk.tlc(r, f"RuntimeTrace[{k}]")
            chk.count("traces_validated_against_impl", len(parts[k]))
            for f_ in r.tagged["FAIL"]:
                fails[f_["id"]] = f_
    return fails


def run(tier):
    chk = vlib.Check("C03", "model_checking", tier)
    vlib.build_harness()
    n = NS[tier]
    corpus = []      # (name, src, path)
    jobs = [("f4", {"Template": '"f"', "Budget": 4 if tier == "quick" else 5, "Lits": "{1}", "Ops": '{"+", "<"}'}),
            ("dsp4", {"Template": '"dsp"', "UseInput": "TRUE", "Budget": 4, "Lits": "{1}", "Ops": '{"+", "*"}'})]
    nmut = 0
    for label, consts in jobs:
        reps = langpipe.generate(chk, "c03" + label, consts)
        for i, rep in enumerate(reps):
            if rep["oom"]:
                continue
            corpus.append((f"{label}:{i}", printer.program(rep["prog"]), None))
            if i % (7 if tier == "quick" else 2) == 0:
                for name, m in mutants(rep["prog"], 2 if tier == "quick" else 4):
                    try:
                        corpus.append((f"{label}:{i}#{name}", printer.program(m), None))
                        nmut += 1
                    except (ValueError, KeyError):
                        pass
    for f in sorted(glob.glob(os.path.join(vlib.REPO, "examples", "*.mmm"))
                    + glob.glob(os.path.join(vlib.REPO, "crates/lib/mimium-test/tests/mmm", "*.mmm"))):
        corpus.append((os.path.basename(f), open(f).read(), f))
    # branch constructs outside Lang: numeric match with literal arms and a default arm, each arm stateless or
    # stateful, nested in a stateful function or not, every arm taken at run time (now % k cycles through them)
    head = "fn cnt(){ self + 1 }\nfn lag(x){ mem(x) }\n"
    arms = {"c": "5", "s": "cnt()", "m": "lag(now)", "d": "delay(3, now, 2)", "ss": "cnt() + cnt() * 10"}
    for a0 in arms:
        for a1 in arms:
            for dflt in list(arms) + [None]:
                body = f"0 => {arms[a0]}, 1 => {arms[a1]}" + (f", _ => {arms[dflt]}" if dflt else "")
                k = 3 if dflt else 2
                for wrap in ("dsp", "fn"):
                    if wrap == "dsp":
                        src = head + f"fn dsp(){{\n  let r = match (now % {k}) {{ {body} }}\n  r + cnt() * 1000\n}}\n"
                    else:
                        src = head + (f"fn g(x){{\n  self + match (x % {k}) {{ {body} }}\n}}\n"
                                      f"fn dsp(){{\n  g(now) + g(now + 1) * 1000 + lag(now)\n}}\n")
                    corpus.append((f"match:{a0}{a1}{dflt or '-'}:{wrap}", src, None))
    # the scrutinee of a numeric match is cast to an integer: values no integer can hold (NaN, infinities, magnitudes
    # beyond 2^63), fractions, signed zero - through dsp's input
    special = ["x7ff8000000000000", "x7ff0000000000000", "xfff0000000000000", "x43e0000000000000", "xc3e0000000000001",
               "x7fefffffffffffff", "x3fe0000000000000", "x8000000000000000", "x3ff8000000000000", "xbff0000000000000", 0, 1, 2]
    special_inputs = {}
    for a1 in ("c", "s", "d"):
        for dflt in ("c", "s"):
            body = f"0 => 5, 1 => {arms[a1]}, _ => {arms[dflt]}"
            for wrap, src in (("dsp", head + f"fn dsp(x){{\n  let r = match (x) {{ {body} }}\n  r + cnt() * 1000\n}}\n"),
                              ("fn", head + f"fn g(x){{\n  self + match (x * 2) {{ {body} }}\n}}\nfn dsp(x){{\n  g(x) + lag(now)\n}}\n"),
                              ("self", head + f"fn g(x){{\n  match (self) {{ {body} }} + self * x\n}}\nfn dsp(x){{\n  g(x)\n}}\n")):
                name = f"matchspecial:{a1}{dflt}:{wrap}"
                corpus.append((name, src, None))
                special_inputs[name] = [[v] for v in special]
    # a stateful call site written in every sub-expression slot of every expression form (lib/sitepos.py)
    import sitepos
    for name, inline, _ref in sitepos.programs():
        corpus.append((name, inline, None))
    pins = {}
    d = os.path.join(vlib.VERIF, "findings", "C03")
    if os.path.isdir(d):
        for fn in sorted(os.listdir(d)):
            if fn.endswith(".json"):
                c = json.load(open(os.path.join(d, fn)))
                pins[c["key"]] = c
                if c.get("src"):
                    corpus.append((f"pin:{fn}", c["src"], None))
    # identical sources once
    seen, uniq = set(), []
    for name, src, path in corpus:
        if src not in seen:
            seen.add(src)
            uniq.append((name, src, path))
    reqs = []
    for name, src, path in uniq:
        # near-miss mutants are replayed on the VM only: on the pinned tree the WASM back end fails on most
        # of the mutants the checker accepts (pinned findings, one instance per class)
        q = {"id": name, "src": src, "n": n, "backends": ["vm"] if "#" in name else ["vm", "wasm"], "sched": True, "strict": True,
             "inputs": [[(t % 5) - 1] for t in range(n)]}
        if name in special_inputs:
            q["inputs"] = (special_inputs[name] * n)[:max(n, len(special_inputs[name]))]
            q["n"] = len(q["inputs"])
        if path:
            q["path"] = path
        reqs.append(q)
    nrecords = 0
    SLICE = 6000          # requests per slice: records of a slice are validated and dropped (memory stays bounded)
    for lo in range(0, len(reqs), SLICE):
        res = vlib.run_harness("run", reqs[lo:lo + SLICE], timeout_per_req=30, chunk=40)
        records, meta = [], {}
        for req, out, crash in res:
            key = vlib.canon_key(req["src"])
            case = {"src": req["src"], "name": req["id"]}
            if crash or out is None:
                kind = "timeout" if crash and crash.get("timeout") else "abort"
                for be in ("vm", "wasm"):
                    records.append({"id": f"{req['id']}|{be}", "compile": f"{kind}: the process died ({(crash or {}).get('stderr', '')[-120:]})",
                                    "nout": 0, "run": []})
                    meta[f"{req['id']}|{be}"] = (case, key)
                continue
            for r_ in to_records(req["id"], out):
                records.append(r_)
                meta[r_["id"]] = (case, key)
        del res
        nrecords += len(records)
        fails = validate(chk, records)
        for rid, f in fails.items():
            case, key = meta[rid]
            be = rid.rsplit("|", 1)[1]
            k2 = vlib.canon_key(case["src"])
            if be == "wasm" and k2 in pins and pins[k2].get("vm_too"):
                continue
            # a pinned finding is a (source, runtime) pair: the same source failing on the other runtime is another violation
            if k2 in pins and pins[k2].get("backend") in (None, be, "both"):
                chk.violation(pins[k2]["what"], dict(case, backend=be), key=k2)
            else:
                chk.violation(f"{be}: {case['name']}: {f['what']} (sample {f['at']})\n{case['src'][:900]}", dict(case, backend=be),
                              key=k2 if k2 not in pins else vlib.canon_key(case["src"] + "|" + be))
        del records, meta
    chk.cov["programs"] = len(uniq)
    chk.cov["mutants"] = nmut
    chk.cov["evaluations"] = nrecords
    chk.cov["distinct_nontrivial"] = len(uniq)
    chk.cov["rule"] = ("LangGen programs (TLC, exhaustive per budget), type-changing mutants of them (deterministic), shipped sources; "
                       f"{n} samples each on both back ends; distinct = distinct source text")
    chk.cov["exhaustive"] = True
    chk.add_sample({"program": uniq[len(uniq) // 3][1]})
    chk.assumptions += ["only instrumented access sites are observed (state storage); memory errors elsewhere in unsafe code are outside "
                        "what an event trace can see", "per-program time limit 30 s; 2 back ends"]
    return chk.finish()


def replay(path):
    case = json.load(open(path))["case"]
    print(case.get("src", "")[:3000])
    return 0

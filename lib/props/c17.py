"""C17 — module privacy and name resolution.

Modules.tla fixes a small module scope (module m with members a, b and a nested
module n, a sibling module k that may re-export, references from the root, from
inside k and from inside m) and the resolution function the language promises;
TLC enumerates every combination of pub flags x re-export x reference form x
position (exhaustive small scope) and prints, for each, whether the program must
be accepted and which definition the reference denotes.  Each case is rendered
as a program and replayed on both back ends: rejected with a diagnostic iff the
specification says so, otherwise the constant of the denoted definition."""
import json
import os

import vlib


def pub(flag):
    return "pub " if flag else ""


def path_of(t):
    return {"a": "m::a", "b": "m::b", "na": "m::n::a"}[t]


def local_name(t):
    return {"a": "a", "b": "b", "na": "a"}[t]


def program(c):
    """the program of one configuration; returns source"""
    t = c["target"]
    form = c["form"]
    pos = c["pos"]
    if form == "facade":
        return ("mod m {\n  " + pub(c["pubN"]) + "mod n {\n    " + pub(c["pubNA"]) + "fn c(){ 3 }\n  }\n  "
                + pub(c["reexpPub"]) + "use n::c\n  pub fn unused(){ 0 }\n}\nfn dsp(){\n  m::c()\n}\n")
    if form == "facade2":
        return ("mod m {\n  " + pub(c["pubN"]) + "mod n {\n    " + pub(c["pubB"]) + "mod h {\n      " + pub(c["pubNA"])
                + "fn c(){ 3 }\n    }\n    pub fn unused2(){ 0 }\n  }\n  " + pub(c["reexpPub"])
                + "use n::h::c\n  pub fn unused(){ 0 }\n}\nfn dsp(){\n  m::c()\n}\n")
    if form in ("deepq", "deepuse", "deepwild", "deepsib", "deeproot"):
        tree = ("  " + pub(c["pubN"]) + "mod n {\n    " + pub(c["pubB"]) + "mod h {\n      " + pub(c["pubNA"])
                + "fn c(){ 3 }\n      pub fn unused3(){ 0 }\n    }\n    pub fn unused2(){ 0 }\n  }\n")
        if form == "deepq":
            return "mod m {\n" + tree + "  pub fn im(){ n::h::c() }\n}\nfn dsp(){\n  m::im()\n}\n"
        if form == "deepuse":
            return "mod m {\n" + tree + "  use n::h::c\n  pub fn im(){ c() }\n}\nfn dsp(){\n  m::im()\n}\n"
        if form == "deepwild":
            # (a wildcard import names its module from the root)
            return "mod m {\n" + tree + "  use m::n::h::*\n  pub fn im(){ c() }\n}\nfn dsp(){\n  m::im()\n}\n"
        if form == "deepsib":
            return ("mod m {\n" + tree + "  pub mod s {\n    pub fn via(){ m::n::h::c() }\n  }\n}\nfn dsp(){\n  m::s::via()\n}\n")
        return "mod m {\n" + tree + "  pub fn unused(){ 0 }\n}\nfn dsp(){\n  m::n::h::c()\n}\n"
    # the reference expression and the `use` lines it needs, relative to where it is written
    uses, ref = [], ""
    if form == "qual":
        if pos == "inm":
            ref = {"a": "a()", "b": "b()", "na": "n::a()"}[t]
        else:
            ref = path_of(t) + "()"
    elif form == "bare":
        ref = local_name(t) + "()"
    elif form == "use1":
        uses = [f"use {path_of(t)}"]
        ref = local_name(t) + "()"
    elif form == "usemulti":
        uses = ["use m::{a, b}"]
        ref = local_name(t) + "()"
    elif form == "wild":
        uses = ["use m::n::*" if t == "na" else "use m::*"]
        ref = local_name(t) + "()"
    elif form == "reexport":
        ref = "k::" + local_name(t) + "()"
    elif form == "shadow":
        uses = [f"use {path_of(t)}"]
        ref = "{\n    let " + local_name(t) + " = | | 7\n    " + local_name(t) + "()\n  }"
    m_body = [f"  {pub(c['pubA'])}fn a(){{ 1 }}", f"  {pub(c['pubB'])}fn b(){{ 2 }}",
              f"  {pub(c['pubN'])}mod n {{\n    {pub(c['pubNA'])}fn a(){{ 3 }}\n  }}"]
    if pos == "inm":
        m_body.append("  pub fn im(){ " + ref + " }")
    k_body = []
    if c["reexp"] != "none":
        k_body.append(f"  {pub(c['reexpPub'])}use {path_of(c['reexp'])}")
    if pos == "ink":
        k_body += ["  " + u for u in uses]
        k_body.append("  pub fn ik(){ " + ref + " }")
    if pos == "glet":
        # the global initialiser follows module m directly, and m ends with its function members
        m_body = [m_body[2], m_body[0], m_body[1]]
        src = ["mod k {"] + k_body + ["  pub fn unused(){ 0 }", "}", "mod m {"] + m_body + ["}"]
    else:
        src = ["mod m {"] + m_body + ["}", "mod k {"] + k_body + ["  pub fn unused(){ 0 }", "}"]
    if pos == "root":
        src += uses
        src.append("fn dsp(){\n  " + ref + "\n}")
    elif pos == "glet":
        # directly after the modules, no function in between
        src.append("let r = " + ref)
        src.append("fn dsp(){\n  r\n}")
    elif pos == "ink":
        src.append("fn dsp(){\n  k::ik()\n}")
    else:
        src.append("fn dsp(){\n  m::im()\n}")
    return "\n".join(src) + "\n"


# Module names are the user's: the matrix is replayed under several naming schemes.  What a module path denotes
# must not depend on how the names relate as *strings* (one a prefix of the other, one containing the other).
SCHEMES = {
    "plain": {},
    "prefix": {"m": "osc", "k": "osc2", "n": "os", "h": "osc2x"},         # every name is a prefix of / prefixed by another
    "suffix": {"m": "xosc", "k": "osc", "n": "sc", "h": "c"},             # ... or a suffix
}


def rename_modules(src, scheme):
    import re
    return re.sub(r"\b(m|k|n|h)\b", lambda mo: scheme.get(mo.group(1), mo.group(1)), src) if scheme else src


def run(tier):
    chk = vlib.Check("C17", "model_checking", tier)
    vlib.build_harness()
    path = os.path.join(vlib.TLA_DIR, "Modules_run.cfg")
    with open(path, "w") as f:
        f.write("SPECIFICATION Spec\nCONSTANTS\n  Emit = TRUE\nINVARIANT PrivacyHolds\nINVARIANT InvEmit\nCHECK_DEADLOCK FALSE\n")
    r = vlib.run_tlc("Modules", "Modules_run", workers=8, timeout=1800)
    chk.tlc(r, "Modules")
    if r.violation:
        chk.violation(f"model: {r.violation}", {"tlc": vlib.tlc_error_trace(r.stdout)}, key="model")
    cases = r.tagged["REPLAY"]
    ncfg = len(cases)
    cases = [dict(c, scheme=sn) for sn in SCHEMES for c in cases]
    reqs = [{"id": i, "src": rename_modules(program(c["cfg"]), SCHEMES[c["scheme"]]), "n": 2, "backends": ["vm", "wasm"], "sched": False}
            for i, c in enumerate(cases)]
    res = vlib.run_harness("run", reqs, timeout_per_req=20)
    pins = {}
    d = os.path.join(vlib.VERIF, "findings", "C17")
    if os.path.isdir(d):
        for fn in sorted(os.listdir(d)):
            if fn.endswith(".json"):
                c = json.load(open(os.path.join(d, fn)))
                pins[c["key"]] = c
    nacc = 0
    for req, out, crash in res:
        c = cases[req["id"]]
        key = vlib.canon_key(req["src"])
        case = {"src": req["src"], "cfg": c["cfg"], "expect": {"ok": c["ok"], "val": c["val"]}}
        if crash or out is None:
            chk.violation(f"process died: {crash}\n{req['src']}", case, key=key)
            continue
        for be in ("vm", "wasm"):
            b = out[be]
            st = b.get("status")
            bad = None
            if c.get("either") and st == "reject":
                continue        # an unused import of an invisible member may be refused
            if c["ok"]:
                nacc += 1
                if st != "ok":
                    bad = f"must be accepted and yield {c['val']} but: {st} {json.dumps([d_['msg'] for d_ in b.get('diags', [])])[:200]} {b.get('msg', '')[:100]}"
                elif not b.get("out") or b["out"][0] != [c["val"]]:
                    bad = f"must resolve to the definition returning {c['val']} but dsp returned {b.get('out', [None])[0]}"
            else:
                if st == "ok":
                    bad = f"must be rejected (private or unknown member) but was accepted and returned {b.get('out', [None])[0]}"
                elif st != "reject":
                    bad = f"must be rejected with a diagnostic but: {st} {b.get('msg', '')[:120]}"
            if bad:
                what = pins[key]["what"] if key in pins else f"{be}: {json.dumps(c['cfg'])} (names: {c['scheme']}): {bad}\n{req['src']}"
                chk.violation(what, dict(case, backend=be), key=key)
    chk.cov["cases"] = ncfg
    chk.cov["naming_schemes"] = sorted(SCHEMES)
    chk.cov["evaluations"] = len(cases) * 2
    chk.cov["distinct_nontrivial"] = len(cases)
    chk.cov["rule"] = "every applicable combination of pub flags x re-export x reference form x position (TLC, exhaustive)"
    chk.cov["exhaustive"] = True
    if cases:
        s = cases[len(cases) // 2]
        chk.add_sample({"cfg": s["cfg"], "program": program(s["cfg"]), "expect": {"ok": s["ok"], "val": s["val"]}})
    return chk.finish()


def replay(path):
    case = json.load(open(path))["case"]
    print(case.get("src", ""))
    print(json.dumps(case.get("expect")))
    return 0

"""C12 — long-running programs do not accumulate closures or heap objects.

Heap.tla is the lifecycle of the VM's reference-counted objects; HeapTrace.tla
validates the events recorded by the hooks (alloc / retain / release of heap
objects, alloc / drop of closures): every event must be enabled in the model
(no use after release, no double release, counts as reported) and the number of
live heap objects after every sample must be the model's.  Boundedness: the
numbers of live closures and heap objects after sample N and after sample 2N
must be equal (VM and WASM host stores).

Corpora: LangGen programs that create closures inside dsp (TLC, exhaustive per
budget), shipped sources.  On the pinned tree the VM keeps every closure created
while dsp runs (pinned findings per construct), so on the VM the boundedness
half is asked only of programs without such constructs and of the shipped
sources that are not pinned; the safety half is asked of everything, and the
WASM host stores are asked to be bounded for everything."""
import glob
import json
import os
from concurrent.futures import ThreadPoolExecutor

import langpipe
import printer
import vlib

N1, N2 = 20, 40


def sample_list(b, backend, with_events=True):
    out = []
    if backend == "vm":
        # (the events of the global initialisers are not part of the trace: they may come from
        # another VM instance at the macro stage)
        out.append({"ev": [], "heap": -1, "a": 0, "b": 0})
        for evs, c in zip(b["events"], b["counts"]):
            out.append({"ev": [[e[0], e[1], e[2], e[3]] for e in evs if e[0] in ("heap", "cls")],
                        "heap": c[1], "a": c[0], "b": c[1]})
    else:
        out.append({"ev": [], "heap": -1, "a": 0, "b": 0})
        for c in b["counts"]:
            out.append({"ev": [], "heap": -1, "a": c[0], "b": c[1]})
    return out


def validate(chk, records):
    step = 300
    parts = [records[k:k + step] for k in range(0, len(records), step)]
    os.makedirs(vlib.WORK, exist_ok=True)

    def one(args):
        k, part = args
        path = os.path.join(vlib.WORK, f"heap_{k}.ndjson")
        with open(path, "w") as f:
            for r in part:
                f.write(json.dumps(r) + "\n")
        try:
            r = vlib.run_tlc("HeapTrace", workers=1, timeout=3000, env={"TRACE": path},
                             tags=("FAIL", "CONSUMED"), deque=True, xss=True, heap="4g")
        finally:
            os.unlink(path)
        if r.violation or not r.tagged["CONSUMED"] or r.tagged["CONSUMED"][0]["n"] != len(part):
            raise vlib.ToolError(f"HeapTrace did not consume the whole trace: {r.violation}\n" + r.stdout[-1500:])
        return k, r
    fails = {}
    with ThreadPoolExecutor(max_workers=8) as ex:
        for k, r in ex.map(one, list(enumerate(parts))):
            chk.tlc(r, f"HeapTrace[{k}]")
            chk.count("traces_validated_against_impl", len(parts[k]))
            for f_ in r.tagged["FAIL"]:
                fails[f_["id"]] = f_
    return fails


# closure constructs that reach a steady state on the pinned tree (none of them lets a closure escape): boundedness is
# asked of them on both runtimes
STEADY_CONSTRUCTS = {
    "unit_fn_applied_lambda": "let acc = 0.0\nfn bump(k){\n  acc = (| a | { a + k })(acc)\n}\nfn dsp(){\n  bump(1.0)\n  acc\n}\n",
    "unit_fn_local_letrec": "let acc = 0.0\nfn bump(k){\n  letrec go = | n | { if (n > 0.0) { k + go(n - 1.0) } else { 0.0 } }\n"
                            "  acc = acc + go(2.0)\n}\nfn dsp(){\n  bump(1.0)\n  acc\n}\n",
    "float_fn_applied_lambda": "fn bump(k, acc){\n  (| a | { a + k })(acc)\n}\nfn dsp(){\n  bump(1.0, now)\n}\n",
    "dsp_local_letrec": "fn dsp(){\n  let n = 2.0\n  letrec go = | i | { if (i > 0.0) { n + go(i - 1.0) } else { 0.0 } }\n  go(2.0)\n}\n",
    "pipe_into_lambda": "fn dsp(){\n  let k = now\n  k |> (| a | { a * 2.0 + k })\n}\n",
    "nested_applied_lambdas": "fn dsp(){\n  let k = now\n  (| a | { (| b | { a + b + k })(2.0) })(1.0)\n}\n",
    "unit_fn_nested_unit_fn": "let acc = 0.0\nfn inner(k){\n  acc = (| a | { a + k })(acc)\n}\nfn outer(k){\n  inner(k)\n  inner(k)\n}\n"
                              "fn dsp(){\n  outer(1.0)\n  acc\n}\n",
    "global_closure": "fn mk(k){ | y | { y + k } }\nlet g = mk(3.0)\nfn dsp(){\n  g(now)\n}\n",
    "task_applied_lambda": "fn makecounter(){\n    let x = 0.0\n    letrec gen = | |{\n        let step = 1.0\n        x = (| a | { a + step })(x)\n"
                           "        gen@(now+1.0)\n    }\n    gen@1.0\n    let getter = | | {x}\n    getter\n}\nlet x_getter = makecounter();\n"
                           "fn dsp(){\n    x_getter()\n}\n",
    "if_arm_applied_lambda": "fn dsp(){\n  let k = now\n  if (k % 2.0) { (| a | { a + k })(1.0) } else { (| a | { a - k })(2.0) }\n}\n",
    "tuple_from_applied_lambda": "fn dsp(){\n  let k = now\n  let (p, q) = (| a | { (a, a + k) })(1.0)\n  p + q\n}\n",
}
TREE = "type rec Tree = Leaf(float) | Node(Tree, Tree)\nfn total(t:Tree)->float{ match t { Leaf(v) => v, Node(l, r) => 1.0 } }\n"
LIST = "type rec L = Nil | Cons(float, L)\n"
# constructs of which only the second half of the property is asked (they run to the end, and no closure or heap object is
# used after it was released): on the pinned tree the VM keeps a box for most lists handed to a function, so their counts grow
SUM = "type rec L = Nil | Cons(float, L)\nfn sum(l:L)->float{ match l { Nil => 0.0, Cons(h, t) => h + sum(t) } }\n"
RUNS_CONSTRUCTS = {
    # destructuring of containers that hold boxed values: named, with placeholders, in a scope that ends before the
    # container's last use
    "tuple_destructure_named": SUM + "fn dsp(){\n  let p = (Cons(1.0, Cons(2.0, Nil)), 0.5)\n  let (l, g) = p\n  sum(l) * g\n}\n",
    "tuple_placeholder_scoped": SUM + "fn dsp(){\n  let p = (Cons(1.0, Cons(2.0, Nil)), 0.5)\n  let g = { let (_, gain) = p\n gain }\n"
                                "  let (l, _) = p\n  sum(l) * g\n}\n",
    "tuple_placeholder_twice": SUM + "fn dsp(){\n  let p = (Cons(1.0, Nil), 0.5)\n  let a = { let (_, x) = p\n x }\n  let b = { let (_, y) = p\n y }\n"
                               "  let (l, _) = p\n  sum(l) + a + b\n}\n",
    "record_placeholder_scoped": SUM + "fn dsp(){\n  let r = {items = Cons(1.0, Cons(2.0, Nil)), gain = 0.5}\n  let g = { let {items = _, gain = k} = r\n k }\n"
                                 "  sum(r.items) * g\n}\n",
    "nested_tuple_placeholder_scoped": SUM + "fn dsp(){\n  let p = ((Cons(1.0, Nil), 2.0), 0.5)\n  let g = { let ((_, m), _) = p\n m }\n"
                                       "  let ((l, _), k) = p\n  sum(l) * g + k\n}\n",
    "tuple_placeholder_in_function": SUM + "fn gain_of(p:(L, float))->float{\n  let (_, g) = p\n  g\n}\nfn dsp(){\n  let p = (Cons(1.0, Nil), 0.5)\n"
                                     "  let g = gain_of(p)\n  let (l, _) = p\n  sum(l) * g\n}\n",
    # a closure that is scheduled while another reference to it stays in use: made once at global scope and scheduled
    # again by every dsp call; one local closure (capturing a parameter) with two schedulings pending at once
    "sched_global_closure_from_dsp": "let acc = 0.0\nfn mk(k){\n  | |{ acc = acc + k }\n}\nlet bump = mk(1.0)\nfn dsp(){\n"
                                     "  let _ = bump@(now+1.0)\n  acc\n}\n",
    "sched_same_closure_two_times": "let acc = 0.0\nfn arm(k){\n  let f = | |{ acc = acc + k }\n  let _ = f@(now+1.0)\n  let _ = f@(now+3.0)\n"
                                    "  0.0\n}\nlet _ = arm(1.0)\nfn dsp(){\n  acc\n}\n",
    "sched_same_closure_three_times": "let acc = 0.0\nfn arm(k){\n  let f = | |{ acc = acc + k }\n  let _ = f@(now+2.0)\n  let _ = f@(now+2.0)\n"
                                      "  let _ = f@(now+5.0)\n  0.0\n}\nlet _ = arm(1.0)\nfn dsp(){\n  acc\n}\n",
    "variant_rebuilt_each_sample": SUM + "fn dsp(){\n  let a = Cons(now, Cons(1.0, Nil))\n  let b = { let c = Cons(2.0, a)\n sum(c) }\n  sum(a) + b\n}\n",
}
# recursive variant values: steady on the VM (the WASM host keeps them: pinned fixtures type_recursive_*.mmm)
STEADY_VM_ONLY = {"variant_flat_tree", "variant_nested_tree_shared", "variant_nested_tree_shared_twice", "variant_list_grown",
                  "variant_list_one", "variant_in_function"}
STEADY_CONSTRUCTS.update({
    "variant_flat_tree": TREE + "fn dsp(){\n  let a = Node(Leaf(1.0), Leaf(2.0))\n  now\n}\n",
    "variant_nested_tree_shared": TREE + "fn dsp(){\n  let a = Node(Leaf(1.0), Leaf(2.0))\n  let b = Node(a, Leaf(3.0))\n  now\n}\n",
    "variant_nested_tree_shared_twice": TREE + "fn dsp(){\n  let a = Node(Leaf(1.0), Leaf(2.0))\n  let b = Node(a, a)\n  let c = Node(b, a)\n  now\n}\n",
    "variant_list_grown": LIST + "fn dsp(){\n  let a = Cons(1.0, Nil)\n  let b = Cons(2.0, a)\n  let c = Cons(3.0, b)\n  now\n}\n",
    "variant_list_one": LIST + "fn dsp(){\n  let a = Cons(now, Nil)\n  now\n}\n",
    "variant_in_function": TREE + "fn build(x){\n  let a = Node(Leaf(x), Leaf(2.0))\n  let b = Node(a, Leaf(3.0))\n  x\n}\nfn dsp(){\n  build(now)\n}\n",
})
CLOSURE_TOKENS = ("|", "mk(", "apply(", "= dbl")


def creates_closures_in_dsp(src):
    """static over-approximation for generated programs: a lambda, a closure maker or a
    higher-order call or a function bound as a value occurs anywhere outside global initialisers"""
    body = "\n".join(l for l in src.split("\n") if not l.startswith("let "))
    return any(t in body for t in CLOSURE_TOKENS) or "@" in body


def run(tier):
    chk = vlib.Check("C12", "model_checking", tier)
    vlib.build_harness()
    corpus = []
    consts = {"Template": '"dsp"', "UseInput": "TRUE", "Budget": 4 if tier == "quick" else 5, "Lits": "{1}", "Ops": '{"+"}',
              "Helpers": '{"counter", "dbl", "apply", "mk"}',
              "Prods": '{"now", "app", "let", "letf", "lam", "fnref", "if"}'}
    reps = langpipe.generate(chk, "c12", consts)
    for i, rep in enumerate(reps):
        if not rep["oom"]:
            corpus.append((f"gen{i}", printer.program(rep["prog"]), None, True))
    for f in sorted(glob.glob(os.path.join(vlib.REPO, "examples", "*.mmm"))
                    + glob.glob(os.path.join(vlib.REPO, "crates/lib/mimium-test/tests/mmm", "*.mmm"))):
        corpus.append((os.path.basename(f), open(f).read(), f, False))
    for name, src in STEADY_CONSTRUCTS.items():
        corpus.append((f"steady:{name}", src, None, False))
    for name, src in RUNS_CONSTRUCTS.items():
        corpus.append((f"runs:{name}", src, None, False))
    pins = {}
    d = os.path.join(vlib.VERIF, "findings", "C12")
    if os.path.isdir(d):
        for fn in sorted(os.listdir(d)):
            if fn.endswith(".json"):
                c = json.load(open(os.path.join(d, fn)))
                pins[c["key"]] = c
                if c.get("src") and not c.get("file"):
                    corpus.append((f"pin:{fn}", c["src"], None, False))
    reqs = []
    for name, src, path, gen in corpus:
        q = {"id": name, "src": src, "n": N2, "backends": ["vm", "wasm"], "sched": True,
             "rec": {"events": True, "counts": True}, "inputs": [[1]] * N2}
        if path:
            q["path"] = path
        reqs.append(q)
    res = vlib.run_harness("run", reqs, timeout_per_req=60, chunk=25)
    records, meta = [], {}
    gen_flag = {name: gen for name, _, _, gen in corpus}
    nclos = 0
    for req, out, crash in res:
        key = vlib.canon_key(req["src"])
        case = {"src": req["src"], "name": req["id"]}
        if crash or out is None:
            continue          # crashes are C03's matter
        for be in ("vm", "wasm"):
            b = out[be]
            if b.get("status") != "ok" or len(b.get("counts", [])) < N2:
                if str(req["id"]).startswith(("steady:", "runs:")) and b.get("status") in ("panic", "dsp_error"):
                    # the constructs of the tables run to the end on the pinned tree: failing at run time is the use
                    # of something that is gone (or C03's matter - either way not what this program does)
                    chk.violation(f"{be}: {req['id']}: fails at run time ({b.get('status')}: {str(b.get('msg'))[:200]} at sample "
                                  f"{b.get('at')})\n{req['src'][:1000]}", dict(case, backend=be), key=vlib.canon_key(req["src"] + "|" + be))
                continue
            samples = sample_list(b, be)
            in_pinned_class = gen_flag[req["id"]] and creates_closures_in_dsp(req["src"])
            ask_steady = not (be == "vm" and in_pinned_class)
            if be == "wasm" and str(req["id"]).startswith("steady:") and str(req["id"])[7:] in STEADY_VM_ONLY:
                ask_steady = False
            if str(req["id"]).startswith("runs:"):
                ask_steady = False
            rid = f"{req['id']}|{be}"
            records.append({"id": rid, "samples": samples, "steady": [N1 + 1, N2 + 1] if ask_steady else [0, 0]})
            meta[rid] = (case, key, be)
            if any(s["a"] or s["b"] for s in samples):
                nclos += 1
    fails = validate(chk, records)
    for rid, f in fails.items():
        case, key, be = meta[rid]
        k2 = vlib.canon_key(case["src"] + "|" + be)
        what = pins[k2]["what"] if k2 in pins else f"{be}: {rid.split('|')[0]}: {f['what']} (sample {f['at']})\n{case['src'][:1000]}"
        chk.violation(what, dict(case, backend=be), key=k2)
    chk.cov["runs_validated"] = len(records)
    chk.cov["evaluations"] = len(records)
    chk.cov["distinct_nontrivial"] = nclos
    chk.cov["rule"] = ("LangGen programs with closure-creating productions (TLC, exhaustive per budget) + shipped sources, "
                       f"{N2} samples each; non-trivial = run that holds at least one closure or heap object")
    chk.cov["exhaustive"] = True
    if reps:
        chk.add_sample({"program": printer.program(reps[len(reps) // 2]["prog"])})
    chk.assumptions += ["VM boundedness is not asked of generated programs that create closures while dsp runs (pinned findings: "
                        "local lambda, higher-order call, closure maker, task scheduled from dsp)",
                        "closures created before recording starts are unknown to the model (their drops are not judged)"]
    return chk.finish()


def replay(path):
    case = json.load(open(path))["case"]
    print(case.get("src", "")[:3000])
    return 0

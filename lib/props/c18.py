"""C18 — generated Rust behaves like the VM.

spec -> impl: the TLC-generated programs of LangGen (Lang.tla gives the expected
samples) are handed to Context::emit_rust; the emitted source is completed with a
host that supplies `now` and `samplerate` as the audio driver does, built with
rustc and run.  Lockstep.tla validates the pair (VM run, Rust run) sample by
sample, bit for bit; in `subset` mode the Rust side may *refuse* a program
(emit_rust returns Err) and nothing else: Rust that does not build, aborts or
prints other numbers is a step the trace specification does not have.  Shipped
fixtures, examples and systematic mutants of them go through the same spec."""
import json
import os
import re

import langpipe
import printer
import vlib
from props.c01 import SPECIAL_INPUTS, mutants, shipped_files

JOBS = {
    "quick": [
        ("f3", {"Template": '"f"', "Budget": 3}),
        ("dsp3in", {"Template": '"dsp"', "UseInput": "TRUE", "Budget": 3}),
        ("ifstate4", {"Template": '"f"', "Budget": 4, "Lits": "{1}", "Ops": '{"+"}',
                      "Helpers": '{"counter", "lag", "pacc"}',
                      "Prods": '{"now", "if", "mem", "delay", "ifp", "proj", "tup"}'}),
    ],
    "thorough": [
        ("f4", {"Template": '"f"', "Budget": 4}),
        ("dsp4in", {"Template": '"dsp"', "UseInput": "TRUE", "Budget": 4}),
        ("ifstate5", {"Template": '"f"', "Budget": 5, "Lits": "{1}", "Ops": '{"+"}',
                      "Helpers": '{"counter", "lag", "pacc"}',
                      "Prods": '{"now", "if", "mem", "delay", "ifp", "proj", "tup"}'}),
        ("f3full", {"Template": '"f"', "Budget": 3, "Lits": "{0, 1, 3}",
                    "Ops": '{"+", "-", "*", "%", "<", "<=", ">", ">=", "==", "!=", "&&", "||"}'}),
    ],
}
# the extensions of Lang.tla (records, closures handed around, arrays, numeric match) at budgets one compilation
# with rustc per program allows; x_ jobs are outside C02's list: generated Rust against the VM only
def _ext(job, budget):
    base = dict(next(c for l, c in langpipe.EXT_CORE["quick"] + langpipe.EXT_X["quick"] if l == job))
    base["Budget"] = budget
    return (re.sub(r"[0-9]+$", "", job) + str(budget), base)


def _two_state_one_closure(rep):
    """hofstate programs in which dsp makes at least two stateful calls and calls a closure"""
    body = printer.program(rep["prog"]).split("fn dsp", 1)[1]
    return body.count("counter(") + body.count("lag(") >= 2 and "inner(" in body


EXT_FILTER = {"hofstate": (_two_state_one_closure, {"quick": 500, "thorough": 4000})}
EXT = {"quick": [_ext("hofstate9", 9), _ext("hof8", 6), _ext("recclo8", 6), _ext("rec6", 5), _ext("x_arr5", 4), _ext("x_matchst5", 4)],
       "thorough": [_ext("hofstate9", 9), _ext("hof8", 7), _ext("recclo8", 7), _ext("rec6", 6), _ext("x_arr5", 5), _ext("x_matchst5", 5)]}
NSAMPLES = {"quick": 32, "thorough": 256}
MUT_PER_FILE = {"quick": 2, "thorough": 12}
RUSTDIR = os.path.join(vlib.WORK, "rust")


def calling_conventions(maxlen):
    """every parameter list of 1..maxlen parameters over {scalar, tuple, record} x every way of calling
    (direct, through a function handle passed to a higher-order function, as a closure): the body is a
    weighted sum of all leaves, so a parameter read from the wrong word changes the result"""
    import itertools
    out = []
    for n in range(1, maxlen + 1):
        for kinds in itertools.product("STR", repeat=n):
            params, args, terms, tys = [], [], [], []
            w = 1
            for i, k in enumerate(kinds):
                if k == "S":
                    params.append(f"p{i}:float")
                    tys.append("float")
                    args.append(f"c + {i}")
                    terms.append(f"p{i} * {w}")
                    w *= 3
                elif k == "T":
                    params.append(f"p{i}:(float,float)")
                    tys.append("(float,float)")
                    args.append(f"(c + {i}, c * 2 + {i})")
                    terms.append(f"p{i}.0 * {w} + p{i}.1 * {w * 3}")
                    w *= 9
                else:
                    params.append(f"p{i}:{{lo:float, hi:float}}")
                    tys.append("{lo:float, hi:float}")
                    args.append(f"{{lo = c + {i}, hi = c * 3 + {i}}}")
                    terms.append(f"p{i}.lo * {w} + p{i}.hi * {w * 3}")
                    w *= 9
            body = " + ".join(terms)
            sig = ", ".join(params)
            arglist = ", ".join(args)
            name = "".join(kinds)
            head = "fn counter(){ self + 1.0 }\n"
            out.append((f"cc:{name}:direct", head + f"fn g({sig}){{ {body} }}\nfn dsp(){{\n  let c = counter()\n  g({arglist})\n}}\n"))
            fty = "(" + ", ".join(tys) + ")->float"
            out.append((f"cc:{name}:handle", head + f"fn g({sig}){{ {body} }}\nfn hof(f:{fty}, c:float){{ f({arglist}) }}\n"
                        f"fn dsp(){{\n  hof(g, counter())\n}}\n"))
            out.append((f"cc:{name}:closure", head + f"fn make(k:float){{ |{sig}| {{ {body} + k }} }}\n"
                        f"fn dsp(){{\n  let f = make(100.0)\n  let c = counter()\n  f({arglist})\n}}\n"))
    return out


def pinned_cases():
    d = os.path.join(vlib.VERIF, "findings", "C18")
    out = []
    if os.path.isdir(d):
        for fn in sorted(os.listdir(d)):
            if fn.endswith(".json"):
                out.append(json.load(open(os.path.join(d, fn))))
    return out


def rust_side(r):
    st = r.get("status", "missing")
    out = r.get("out", [])
    return {"status": st, "nout": len(out[0]) if out else 0,
            "out": [[langpipe.bits(v) for v in row] for row in out], "words": []}


def run_pair(reqs, timeout=60):
    """reqs: {id, src, n, inputs?, path?}; returns {id: (vm_result, rust_result, crash)}"""
    vm = vlib.run_harness("run", [dict(r, backends=["vm"], sched=False) for r in reqs], timeout_per_req=timeout, chunk=40)
    ru = vlib.run_harness("rust", [dict(r, dir=RUSTDIR) for r in reqs], timeout_per_req=timeout, chunk=40)
    res = {}
    for (req, out, crash), (_, rout, rcrash) in zip(vm, ru):
        res[req["id"]] = (out, rout, crash, rcrash)
    return res


def run(tier):
    chk = vlib.Check("C18", "translation_validation", tier)
    vlib.build_harness()
    os.makedirs(RUSTDIR, exist_ok=True)
    records, meta = [], {}
    nprog = 0
    status = {}
    reasons = {}
    nontrivial = set()

    def judge(rid, name, src, case, key, out, rout, crash, rcrash, rep=None, mutant=False):
        nonlocal nprog
        nprog += 1
        if (rcrash or rout is None) and (crash or out is None):
            # the shared front end kills the process for both (unbounded macro recursion of a mutant, ...): C03/C04's matter
            chk.count("front_end_died_for_both")
            return
        if rcrash or rout is None:
            chk.violation(f"the Rust generator killed the process on {name}: {rcrash}\n{src[:1200]}", case, key=key)
            return
        status[rout["status"]] = status.get(rout["status"], 0) + 1
        if rout["status"] == "refused":
            import re
            d = rout.get("diags") or [{}]
            why = re.sub(r"[0-9]+", "N", str(d[0].get("msg", d[0]) if isinstance(d[0], dict) else d[0]))[:90]
            reasons[why] = reasons.get(why, 0) + 1
        if rout["status"] == "tool_error":
            raise vlib.ToolError(f"rustc / generated binary could not be started: {rout.get('msg')}")
        if crash or out is None:
            if mutant:
                chk.count("mutants_not_comparable")
                return
            chk.violation(f"VM process died on {name}: {crash}", case, key=key)
            return
        v = out["vm"]
        if rep is not None and rout["status"] == "ok":
            d = langpipe.compare_outputs(rep, rout)
            if d:
                chk.violation(f"generated Rust differs from the specification: {d}\n{src}", case, key=key)
                return
        a, b = langpipe.side(v, with_words=False), rust_side(rout)
        if a["status"] in ("reject", "error"):
            a["status"] = "refused"
        if a["status"] in ("panic", "dsp_error"):
            if b["status"] == "refused":
                return
            if a["status"] == "panic" and b["status"] == "panic" and v.get("msg", "a")[:60] == rout.get("msg", "b")[:60]:
                # the same panic of the shared front end on both sides: C03's matter, not the generator's
                chk.count("same_front_end_panic_on_both_sides")
                return
            a["status"] = "failed at run time"
        if b["status"] in ("run_failed",) and a["status"] == "failed at run time":
            b["status"] = "failed at run time"
        records.append({"id": rid, "a": a, "b": b, "cmpwords": False, "subset": True})
        meta[rid] = (name, src, case, key, rout)
        if rout["status"] == "ok" and rout.get("out") and any(row != rout["out"][0] for row in rout["out"]):
            nontrivial.add(key)

    # ---- (a) TLC-generated programs
    for label, consts in JOBS[tier] + EXT[tier]:
        reps = langpipe.generate(chk, label, consts, timeout=3000)
        live = [(i, r) for i, r in enumerate(reps) if not r["oom"]]
        flt = EXT_FILTER.get(re.sub(r"[0-9]+$", "", label))
        if flt:      # a structural subset, thinned out evenly (one rustc run per program)
            live = [(i, r) for i, r in live if flt[0](r)]
            live = live[::max(1, len(live) // flt[1][tier])]
            chk.cov[f"{label}_selected"] = len(live)
        reqs = []
        for i, r in live:
            q = langpipe.to_request(i, r)
            reqs.append({"id": i, "src": q["src"], "n": q["n"], **({"inputs": q["inputs"]} if "inputs" in q else {})})
        for rid_, (out, rout, crash, rcrash) in run_pair(reqs).items():
            rep = reps[rid_]
            src = printer.program(rep["prog"])
            judge(f"{label}:{rid_}", label, src, {"src": src, "inputs": rep["inputs"], "n": len(rep["expect"]), "job": label},
                  vlib.canon_key(src), out, rout, crash, rcrash, rep=None if label.startswith("x_") else rep)
        if reps:
            chk.add_sample({"job": label, "source": printer.program(reps[len(reps) // 2]["prog"])})

    # ---- (b) shipped sources and mutants
    n = NSAMPLES[tier]
    reqs = []
    pinned_files = {c.get("file") for c in pinned_cases() if c.get("file")}
    for f in shipped_files():
        src = open(f).read()
        base = os.path.basename(f)
        if os.path.relpath(f, vlib.REPO) in pinned_files:
            continue            # judged below as a pinned finding; its mutants would only repeat it
        for name, s in [(base, src)] + [(f"{base}#m{j}", m) for j, m in enumerate(mutants(src, MUT_PER_FILE[tier]))]:
            inputs = [[SPECIAL_INPUTS[(t + c) % len(SPECIAL_INPUTS)] for c in range(4)] for t in range(n)]
            reqs.append({"id": name, "src": s, "n": n, "path": f, "inputs": inputs})
    # ---- the state-site position table (lib/sitepos.py): stateful calls in every sub-expression slot of every form
    import sitepos
    for name, inline, _ref in sitepos.programs():
        if ":helper" in name and not name.endswith(":tail"):
            continue                # (one rustc run per program: dsp with and without a tail, the helper with a tail)
        reqs.append({"id": name, "src": inline, "n": 8, "path": None, "inputs": []})
    # ---- (c) calling conventions: parameter lists over {scalar, tuple, record} x direct / handle / closure calls
    ccs = calling_conventions(2 if tier == "quick" else 3)
    for name, src in ccs:
        reqs.append({"id": name, "src": src, "n": 4, "path": None, "inputs": []})
    chk.cov["calling_convention_programs"] = len(ccs)
    byid = {r["id"]: r for r in reqs}
    for rid_, (out, rout, crash, rcrash) in run_pair([{k: v for k, v in r.items() if v is not None} for r in reqs], timeout=120).items():
        r = byid[rid_]
        judge(f"file:{rid_}", rid_, r["src"], {"src": r["src"], "file": r["path"], "name": rid_, "n": n, "inputs": r["inputs"]},
              vlib.canon_key(r["src"]), out, rout, crash, rcrash, mutant="#m" in rid_)
    chk.cov["shipped_and_mutants"] = len(reqs)

    # ---- pinned findings
    pins = pinned_cases()
    preqs = [{"id": f"pin{i}", "src": c["src"], "n": c.get("n", 8), **({"inputs": c["inputs"]} if c.get("inputs") else {}),
              **({"path": os.path.join(vlib.REPO, c["file"])} if c.get("file") else {})} for i, c in enumerate(pins)]
    for rid_, (out, rout, crash, rcrash) in run_pair(preqs).items():
        c = pins[int(rid_[3:])]
        judge(f"pin:{rid_}", c["what"], c["src"], {"src": c["src"]}, c["key"], out, rout, crash, rcrash)

    fails = langpipe.validate_lockstep(chk, records, "c18")
    for rid, f in fails.items():
        name, src, case, key, rout = meta[rid]
        if rid.startswith("pin:"):
            chk.violation(name, case, key=key)
            continue
        what = {"status": f"generated Rust: status={rout['status']} {rout.get('msg', '')[:500]}"}.get(f["what"],
               f"generated Rust and VM differ ({f['what']} at sample {f['at']})")
        chk.violation(f"{what} on {name}\n{src[:1500]}", case, key=key)
    chk.cov["rust_status"] = status
    chk.cov["refusal_reasons"] = dict(sorted(reasons.items(), key=lambda kv: -kv[1])[:12])
    chk.cov["programs"] = nprog
    chk.cov["evaluations"] = nprog
    chk.cov["distinct_nontrivial"] = len(nontrivial)
    chk.cov["rule"] = ("TLC-enumerated programs (exhaustive per job) + shipped sources + systematic mutants, each emitted, built with "
                       "rustc and run; non-trivial = distinct source accepted by the generator whose output stream is not constant")
    chk.assumptions += ["rustc of the repository's toolchain, opt-level 0; host: now counts samples, samplerate 48000",
                        "no plugins are loaded: programs that need them are refused by both sides"]
    return chk.finish()


def replay(path):
    case = json.load(open(path))["case"]
    req = {"id": "replay", "src": case["src"], "n": case.get("n", 8)}
    if case.get("inputs"):
        ins = case["inputs"]
        req["inputs"] = ins if ins and isinstance(ins[0], list) else [[v] for v in ins]
    if case.get("file"):
        req["path"] = case["file"]
    out, rout, crash, rcrash = run_pair([req])["replay"]
    print(case["src"])
    print("vm  :", (out or {}).get("vm", crash))
    print("rust:", rout or rcrash)
    return 0

"""C07 — hot swap after an edit preserves the state of untouched signal paths.

EditSwap.tla: the program is a list of independent stateful voices; channel A
sums the voices no edit has touched, channel B the rest.  TLC explores every
history of ticks, edits (insert / delete / replace a voice, change a constant, nest a
voice one call deeper or back)
and failing compilations within the bounds; the specification's state after a
swap is what the property promises (cells of surviving voices move with the
voice, everything else starts at zero, the clock keeps running; a failing
compilation changes nothing).  Every history is replayed through the real
hot-swap paths of VM and WASM and channel A is compared sample by sample."""
import hashlib
import json
import os
import struct

import printer
import vlib

BOUNDS = {
    "quick": {"NTicks": 6, "MaxEdits": 2, "MaxVoices": 3, "InitVoices": 2, "EditAt": "{1, 3}", "Live": "FALSE", "Frames": "{1}",
              "ShapeSet": '{"counter", "lagv", "dlv", "nestv", "paccv"}'},
    "thorough": {"NTicks": 8, "MaxEdits": 2, "MaxVoices": 3, "InitVoices": 2, "EditAt": "{0, 1, 2, 3, 5}", "Live": "FALSE", "Frames": "{1}",
                 "ShapeSet": '{"counter", "lagv", "dlv", "nestv", "paccv"}'},
}
# edits inside a voice (a stateful site inserted into / removed from the operand of an inline delay over a stateful call)
INNER = {
    "quick": {"NTicks": 8, "MaxEdits": 2, "MaxVoices": 3, "InitVoices": 2, "EditAt": "{3, 5}", "Live": "FALSE", "Frames": "{1}",
              "ShapeSet": '{"idl", "lagv", "dlv"}'},
    "thorough": {"NTicks": 10, "MaxEdits": 3, "MaxVoices": 3, "InitVoices": 2, "EditAt": "{1, 3, 6}", "Live": "FALSE", "Frames": "{1}",
                 "ShapeSet": '{"idl", "nestv", "paccv", "lagv"}'},
}
BROKEN = "fn dsp(){\n  (1 + , 2\n}\n"

# the live-coding loop (EditSwap.tla with Live = TRUE): TLC explores every history within these bounds and checks
# the invariants on all of them; `replay` histories are driven through the real loop (see live_layer)
LIVE_BOUNDS = {
    "quick": {"NTicks": 4, "MaxEdits": 2, "MaxVoices": 3, "InitVoices": 2, "EditAt": "{0, 1, 2}", "Live": "TRUE", "Frames": "{1, 2}",
              "ShapeSet": '{"counter", "lagv", "dlv", "nestv", "paccv"}', "replay": 400},
    "thorough": {"NTicks": 5, "MaxEdits": 2, "MaxVoices": 3, "InitVoices": 2, "EditAt": "{0, 1, 2, 3}", "Live": "TRUE",
                 "Frames": "{1, 2}", "ShapeSet": '{"counter", "lagv", "dlv", "nestv", "paccv"}', "replay": 6000},
}


def f32(x):
    return struct.unpack("f", struct.pack("f", float(x)))[0]


def voices_of(prog):
    """[(let name, callee)] of dsp's voices in layout order (the callee determines the state shape)."""
    def callee(e):
        if isinstance(e, dict):
            if e.get("k") == "call":
                return e["f"]
            for v in e.values():
                c = callee(v)
                if c:
                    return c
        elif isinstance(e, list):
            for v in e:
                c = callee(v)
                if c:
                    return c
        return None
    out, b = [], prog["fns"]["dsp"]["b"]
    while isinstance(b, dict) and b.get("k") == "let":
        out.append((b["x"], callee(b["a"])))
        b = b["b"]
    return out


def keeps_offsets(old, new):
    """True when every voice of `old` that survives in `new` (same name, same shape) lies in the common prefix of the
    two layouts: a migration that copies the old words verbatim is then exactly what the property asks for."""
    m = 0
    while m < len(old) and m < len(new) and old[m] == new[m]:
        m += 1
    return not (set(old[m:]) & set(new[m:]))


def live_model(chk, tier):
    """LiveLoop.tla: the protocol between editor, watcher thread and audio thread, all interleavings.  Each row:
    (backend, consumer, shifting edits, invariant, violation expected)."""
    rows = [("vm", "one_per_callback", "TRUE", "SwapKeepsPromise", False),
            ("wasm_inproc", "one_per_callback", "TRUE", "SwapKeepsPromise", False),
            # taking only the newest waiting program applies a plan to a program it was not computed for
            ("wasm_inproc", "drain_latest", "TRUE", "PlanMatchesRunningProgram", True),
            # what the CLI does for WASM today (compiler subprocess, no layout in the payload): the pinned finding
            ("wasm_subproc", "one_per_callback", "TRUE", "SurvivorsContinue", True),
            ("wasm_subproc", "one_per_callback", "FALSE", "SurvivorsContinue", False)]
    if tier == "thorough":
        rows += [("vm", "drain_latest", "TRUE", "SwapKeepsPromise", False), ("vm", "drain_all", "TRUE", "SwapKeepsPromise", False),
                 ("wasm_inproc", "drain_all", "TRUE", "SwapKeepsPromise", False),
                 ("wasm_inproc", "drain_latest", "TRUE", "SwapKeepsPromise", True),
                 ("wasm_subproc", "one_per_callback", "FALSE", "SwapKeepsPromise", True)]
    for be, cons, shift, inv, expect in rows:
        path = os.path.join(vlib.TLA_DIR, "LiveLoop_run.cfg")
        with open(path, "w") as f:
            f.write(f'SPECIFICATION Spec\nCONSTANTS\n  Backend = "{be}"\n  Consumer = "{cons}"\n  Voices = {{1, 2, 3, 4}}\n'
                    f'  MaxSaves = 3\n  MaxCallbacks = {3 if tier == "quick" else 4}\n  ShiftingEdits = {shift}\n'
                    f'INVARIANT {inv}\nINVARIANT LastGoodSaveRuns\nINVARIANT ProducerTracksChannel\nCHECK_DEADLOCK FALSE\n')
        r = vlib.run_tlc("LiveLoop", "LiveLoop_run", workers=6, timeout=1500)
        label = f"LiveLoop[{be}, {cons}, shifting edits {shift}: {inv}{', violation expected' if expect else ''}]"
        chk.tlc(r, label)
        if bool(r.violation) != expect:
            if expect:
                raise vlib.ToolError(f"{label}: no violation found (vacuous model)")
            chk.violation(f"model: {label}: {r.violation}", {"tlc": vlib.tlc_error_trace(r.stdout)}, key="model-liveloop-" + be + cons)


def live_layer(chk, tier):
    """C07 (and the repeated identical swap of C06) through the live-coding loop as the CLI runs it: FileRunner
    (compile service thread / compiler subprocess, payload composition against the last *prepared* program), the
    swap channel, and the native driver's audio callback, which takes one waiting program per invocation."""
    live_model(chk, tier)
    b = dict(LIVE_BOUNDS[tier])
    nrep = b.pop("replay")
    path = os.path.join(vlib.TLA_DIR, "EditSwap_live_run.cfg")
    with open(path, "w") as f:
        f.write("SPECIFICATION Spec\nCONSTANTS\n")
        for k, v in b.items():
            f.write(f"  {k} = {v}\n")
        f.write("INVARIANT CellsWellFormed\nINVARIANT QueueEndsWithFile\nINVARIANT NothingWaitingMeansFileRuns\n"
                "INVARIANT Emit\nCHECK_DEADLOCK FALSE\n")
    r = vlib.run_tlc("EditSwap", "EditSwap_live_run", workers=12, timeout=3000, raw_tags=("REPLAY",))
    chk.tlc(r, "EditSwap(Live)")
    if r.violation:
        chk.violation(f"model (live loop): {r.violation}", {"tlc": vlib.tlc_error_trace(r.stdout)}, key="model-live")
    raw = sorted(r.tagged["REPLAY"])
    # structural cover: one history per class (sequence of operations, callback sizes and voice layouts by name),
    # then a seeded fill; the shapes of the voices vary inside a class.  The class is read off the undecoded line
    # (operations, callback sizes and let-bound voice names in order of appearance); only the chosen lines are decoded.
    import re
    sigre = re.compile(r'op\\":\\"(\w+)|frames\\":(\d+)|x\\":\\"(v\d+)')
    hk = lambda x: hashlib.sha256((str(vlib.seed()) + x).encode()).hexdigest()
    classes, rest = {}, []
    for line in raw:
        sig = tuple(sigre.findall(line))
        if sig in classes:
            rest.append(line)
        else:
            classes[sig] = line
    chosen = sorted(classes.values(), key=hk)
    if len(chosen) < nrep:
        rest.sort(key=hk)
        chosen = chosen + rest[:nrep - len(chosen)]
    chosen = [vlib.decode_tagged(x) for x in chosen[:nrep]]
    reps = raw
    pinned = []
    d = os.path.join(vlib.VERIF, "findings", "C07")
    if os.path.isdir(d):
        for fn in sorted(os.listdir(d)):
            if fn.startswith("live_") and fn.endswith(".json"):
                pinned.append(json.load(open(os.path.join(d, fn))))
    reqs, meta = [], []

    def add(src0, ops, labels, exp, mask, backend, pinned_case=False):
        reqs.append({"id": len(reqs), "backend": backend, "src": src0, "ops": ops, "hch": 2, "bufsize": 64, "dir": vlib.WORK})
        meta.append((labels, exp, mask, pinned_case))

    skipped_shifting = 0
    for rep in chosen:
        hist = rep["hist"]
        src0 = printer.program(hist[0]["prog"])
        ops, labels, layouts = [], [], [voices_of(hist[0]["prog"])]
        for h in hist[1:]:
            if h["op"] == "cb":
                ops.append({"op": "cb", "frames": h["frames"]})
                labels.append(f"cb({h['frames']})")
            elif h["op"] == "broken":
                ops.append({"op": "edit", "src": BROKEN})
                labels.append("broken")
            else:
                ops.append({"op": "edit", "src": printer.program(h["prog"])})
                labels.append(h["op"])
                layouts.append(voices_of(h["prog"]))
        add(src0, ops, labels, rep["expectA"], rep["mask"], "vm")
        # WASM: the CLI compiles in a subprocess and loses the state layout, so the audio thread copies the old
        # words verbatim (pinned finding): the replayed histories are those in which that copy is the right migration
        if all(keeps_offsets(a, b2) for a, b2 in zip(layouts, layouts[1:])):
            add(src0, ops, labels, rep["expectA"], rep["mask"], "wasm")
        else:
            skipped_shifting += 1
    for c in pinned:
        add(c["src"], c["ops"], c["labels"], c["expectA"], c["mask"], c["backend"], True)
    env = dict(os.environ, MMVERIF_HOME=os.path.join(vlib.WORK, "home"))
    os.makedirs(env["MMVERIF_HOME"], exist_ok=True)
    res = vlib.run_harness("live", reqs, timeout_per_req=60, env=env)
    nviol = 0
    for req, out, crash in res:
        labels, exp, mask, pinned_case = meta[req["id"]]
        be = req["backend"]
        key = vlib.canon_key({"live": be, "src": req["src"], "ops": req["ops"]})
        case = {"backend": be, "src": req["src"], "ops": req["ops"], "labels": labels, "expectA": exp, "mask": mask}
        if crash or out is None:
            chk.violation(f"live loop ({be}): process died during {labels}: {crash}\n{req['src']}", case, key=key)
            continue
        got = [row[0] if row else None for row in out.get("out", [])]
        ok = out.get("status") == "ok" and len(got) == len(exp) and all(
            (not m) or (isinstance(g, (int, float)) and float(g) == f32(e)) for g, e, m in zip(got, exp, mask))
        if not ok:
            nviol += 1
            chk.violation(f"live loop ({be}): history {labels}: channel A {got} (status {out.get('status')} "
                          f"{str(out.get('msg', ''))[:100]}) instead of {exp} (compared where {mask})\n--- initial program\n"
                          f"{req['src']}--- saved versions\n" + "\n".join(o.get('src', '') for o in req["ops"] if o["op"] == "edit")[:1500],
                          case, key=key)
    chk.cov["live_histories_explored_by_tlc"] = len(reps)
    chk.cov["live_histories_replayed"] = len(chosen)
    chk.cov["live_history_classes"] = len(classes)
    chk.cov["live_runs"] = len(reqs)
    chk.cov["live_wasm_histories_outside_clean_fragment"] = skipped_shifting
    chk.cov["live_pinned"] = len(pinned)
    return len(reqs)


def run(tier):
    chk = vlib.Check("C07", "model_checking", tier)
    vlib.build_harness()
    reps = []
    for label, bounds in (("EditSwap", BOUNDS[tier]), ("EditSwap[edits inside a voice]", INNER[tier])):
        path = os.path.join(vlib.TLA_DIR, "EditSwap_run.cfg")
        with open(path, "w") as f:
            f.write("SPECIFICATION Spec\nCONSTANTS\n")
            for k, v in bounds.items():
                f.write(f"  {k} = {v}\n")
            f.write("INVARIANT CellsWellFormed\nINVARIANT Emit\nCHECK_DEADLOCK FALSE\n")
        r = vlib.run_tlc("EditSwap", "EditSwap_run", workers=12, timeout=3000)
        chk.tlc(r, label)
        if r.violation:
            chk.violation(f"model: {r.violation}", {"tlc": vlib.tlc_error_trace(r.stdout)}, key="model")
        part = r.tagged["REPLAY"]
        if label != "EditSwap":
            # of the second job, the histories that do edit inside a voice (the others repeat the first job's)
            part = [x for x in part if any(h["op"].startswith("inner_") for h in x["hist"])]
            chk.cov["histories_with_edits_inside_a_voice"] = len(part)
        reps += part
    reps = sorted(reps, key=lambda x: json.dumps(x, sort_keys=True))
    reqs, meta = [], []
    for i, rep in enumerate(reps):
        hist = rep["hist"]
        src0 = printer.program(hist[0]["prog"])
        swaps, t, ops = [], 0, []
        for h in hist[1:]:
            if h["op"] == "tick":
                t += 1
            elif h["op"] == "broken":
                swaps.append({"at": t, "src": BROKEN})
                ops.append(f"broken@{t}")
            else:
                swaps.append({"at": t, "src": printer.program(h["prog"])})
                ops.append(f"{h['op']}@{t}")
        reqs.append({"id": i, "src": src0, "n": t, "backends": ["vm", "wasm"], "sched": True, "swaps": swaps})
        meta.append((ops, rep["expectA"], [s["src"] for s in swaps]))
    res = vlib.run_harness("run", reqs, timeout_per_req=30)
    distinct = set()
    for req, out, crash in res:
        ops, exp, srcs = meta[req["id"]]
        key = vlib.canon_key(req["src"] + "|".join(srcs) + ",".join(ops))
        case = {"src": req["src"], "edits": ops, "versions": srcs, "expectA": exp}
        if crash or out is None:
            chk.violation(f"runtime process died during history {ops}: {crash}\n{req['src']}", case, key=key)
            continue
        for be in ("vm", "wasm"):
            b = out[be]
            got = [row[0] if row else None for row in b.get("out", [])]
            ok = b.get("status") == "ok" and len(got) == len(exp) and all(
                isinstance(g, (int, float)) and float(g) == float(e) for g, e in zip(got, exp))
            # a failing compilation must be refused (and change nothing); every other swap must be taken
            sw = b.get("swaps", [])
            swok = len(sw) == len(ops) and all((not s.get("ok")) if o.startswith("broken") else s.get("ok") for s, o in zip(sw, ops))
            if not ok or not swok:
                chk.violation(f"{be}: history {ops}: channel A {got} (status {b.get('status')} {b.get('msg', '')[:100]}, swaps "
                              f"{[s.get('ok') for s in sw]}) instead of {exp}\n--- initial program\n{req['src']}--- versions\n"
                              + "\n".join(srcs)[:1500], dict(case, backend=be), key=key)
        distinct.add(key)
    # development aid (never set by a registered command): VERIF_DEV_LAYERS=main skips the live-coding layer
    nlive = 0 if os.environ.get("VERIF_DEV_LAYERS") == "main" else live_layer(chk, tier)
    chk.cov["histories"] = len(reps)
    chk.cov["evaluations"] = len(reps) * 2 + nlive
    chk.cov["distinct_nontrivial"] = len(distinct)
    chk.cov["rule"] = "every history of ticks, edits and failing compilations within the bounds (TLC, exhaustive); distinct = history"
    chk.cov["exhaustive"] = True
    if reps:
        i = len(reps) // 2
        chk.add_sample({"initial": reqs[i]["src"], "edits": meta[i][0], "expectA": meta[i][1]})
    chk.assumptions += ["voices of one program have pairwise different state shapes (the assignment among identically shaped "
                        "siblings is left open by the property)", "two output channels throughout"]
    return chk.finish()


def replay(path):
    case = json.load(open(path))["case"]
    print(case.get("src"))
    print(case.get("edits"), case.get("expectA"))
    return 0

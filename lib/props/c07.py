"""C07 — hot swap after an edit preserves the state of untouched signal paths.

EditSwap.tla: the program is a list of independent stateful voices; channel A
sums the voices no edit has touched, channel B the rest.  TLC explores every
history of ticks, edits (insert / delete / replace a voice, change a constant, nest a
voice one call deeper or back)
and failing compilations within the bounds; the specification's state after a
swap is what the property promises (cells of surviving voices move with the
voice, everything else starts at zero, the clock keeps running; a failing
compilation changes nothing).  Every history is replayed through the real
hot-swap paths of VM and WASM and channel A is compared sample by sample."""
import json
import os

import printer
import vlib

BOUNDS = {
    "quick": {"NTicks": 6, "MaxEdits": 2, "MaxVoices": 3, "InitVoices": 2, "EditAt": "{1, 3}"},
    "thorough": {"NTicks": 8, "MaxEdits": 2, "MaxVoices": 3, "InitVoices": 2, "EditAt": "{0, 1, 2, 3, 5}"},
}
BROKEN = "fn dsp(){\n  (1 + , 2\n}\n"


def run(tier):
    chk = vlib.Check("C07", "model_checking", tier)
    vlib.build_harness()
    path = os.path.join(vlib.TLA_DIR, "EditSwap_run.cfg")
    with open(path, "w") as f:
        f.write("SPECIFICATION Spec\nCONSTANTS\n")
        for k, v in BOUNDS[tier].items():
            f.write(f"  {k} = {v}\n")
        f.write("INVARIANT CellsWellFormed\nINVARIANT Emit\nCHECK_DEADLOCK FALSE\n")
    r = vlib.run_tlc("EditSwap", "EditSwap_run", workers=12, timeout=3000)
    chk.tlc(r, "EditSwap")
    if r.violation:
        chk.violation(f"model: {r.violation}", {"tlc": vlib.tlc_error_trace(r.stdout)}, key="model")
    reps = sorted(r.tagged["REPLAY"], key=lambda x: json.dumps(x, sort_keys=True))
    reqs, meta = [], []
    for i, rep in enumerate(reps):
        hist = rep["hist"]
        src0 = printer.program(hist[0]["prog"])
        swaps, t, ops = [], 0, []
        for h in hist[1:]:
            if h["op"] == "tick":
                t += 1
            elif h["op"] == "broken":
                swaps.append({"at": t, "src": BROKEN})
                ops.append(f"broken@{t}")
            else:
                swaps.append({"at": t, "src": printer.program(h["prog"])})
                ops.append(f"{h['op']}@{t}")
        reqs.append({"id": i, "src": src0, "n": t, "backends": ["vm", "wasm"], "sched": True, "swaps": swaps})
        meta.append((ops, rep["expectA"], [s["src"] for s in swaps]))
    res = vlib.run_harness("run", reqs, timeout_per_req=30)
    distinct = set()
    for req, out, crash in res:
        ops, exp, srcs = meta[req["id"]]
        key = vlib.canon_key(req["src"] + "|".join(srcs) + ",".join(ops))
        case = {"src": req["src"], "edits": ops, "versions": srcs, "expectA": exp}
        if crash or out is None:
            chk.violation(f"runtime process died during history {ops}: {crash}\n{req['src']}", case, key=key)
            continue
        for be in ("vm", "wasm"):
            b = out[be]
            got = [row[0] if row else None for row in b.get("out", [])]
            ok = b.get("status") == "ok" and len(got) == len(exp) and all(
                isinstance(g, (int, float)) and float(g) == float(e) for g, e in zip(got, exp))
            # a failing compilation must be refused (and change nothing); every other swap must be taken
            sw = b.get("swaps", [])
            swok = len(sw) == len(ops) and all((not s.get("ok")) if o.startswith("broken") else s.get("ok") for s, o in zip(sw, ops))
            if not ok or not swok:
                chk.violation(f"{be}: history {ops}: channel A {got} (status {b.get('status')} {b.get('msg', '')[:100]}, swaps "
                              f"{[s.get('ok') for s in sw]}) instead of {exp}\n--- initial program\n{req['src']}--- versions\n"
                              + "\n".join(srcs)[:1500], dict(case, backend=be), key=key)
        distinct.add(key)
    chk.cov["histories"] = len(reps)
    chk.cov["evaluations"] = len(reps) * 2
    chk.cov["distinct_nontrivial"] = len(distinct)
    chk.cov["rule"] = "every history of ticks, edits and failing compilations within the bounds (TLC, exhaustive); distinct = history"
    chk.cov["exhaustive"] = True
    if reps:
        i = len(reps) // 2
        chk.add_sample({"initial": reqs[i]["src"], "edits": meta[i][0], "expectA": meta[i][1]})
    chk.assumptions += ["voices of one program have pairwise different state shapes (the assignment among identically shaped "
                        "siblings is left open by the property)", "two output channels throughout"]
    return chk.finish()


def replay(path):
    case = json.load(open(path))["case"]
    print(case.get("src"))
    print(case.get("edits"), case.get("expectA"))
    return 0

"""C13 — tokens and syntax tree are lossless over the source text.

LexGen.tla makes TLC enumerate every string up to a length bound over an
alphabet of character classes chosen so that every branch of the tokenizer is
reachable; the real tokenize / preparse / parse_cst are run on each text and the
recorded result is validated by LexTrace.tla: the lexer as a state machine that
consumes the text (tiling, character boundaries, end marker), the CST leaves as
exactly the syntax tokens in order, and every trivia token attached to exactly
one neighbouring syntax token.  Shipped sources, every prefix of some of them
and seeded random / mutated Unicode texts go through the same trace spec."""
import glob
import json
import os
import random
from concurrent.futures import ThreadPoolExecutor

import vlib

CLASSES = ["a", "_", "1", ".", "\"", "/", "*", "\n", " ", "|", ">", "-", "=", "(", "{", "}", "é", "\U0001F600", "@", ":"]
EXTRA = ["\r", "\t", "<", "!", "&", "$", "`", "#", ",", ";", ")", "[", "]", "あ", "\\", "?", "%", "+", "^", "'", "0", "e", "x", "~", "﻿"]
BOUND = {"quick": (20, 4), "thorough": (20, 5)}
# smaller lexicons explored deeper: the tokenizer's multi-character rules (numbers and projection chains,
# comments and strings, operators) need longer texts than the full alphabet reaches
SUBLEX = {
    "quick": [("numeric", ["a", "1", "23", ".", "_", " "], 6),
              ("comment", ["/", "*", "\n", "a", "\"", " "], 6),
              ("operator", ["|", ">", "-", "=", "<", "!", "&", ":"], 5)],
    "thorough": [("numeric", ["a", "1", "23", ".", "_", " ", "e", "-"], 6),
                 ("comment", ["/", "*", "\n", "a", "\"", " ", "é"], 6),
                 ("operator", ["|", ">", "-", "=", "<", "!", "&", ":", ".", "@"], 5)],
}


def gen_texts(chk, nclasses, maxlen, classes=None, label=""):
    classes = classes or CLASSES
    path = os.path.join(vlib.TLA_DIR, "LexGen_run.cfg")
    with open(path, "w") as f:
        f.write(f"SPECIFICATION Spec\nCONSTANTS\n  NClasses = {nclasses}\n  MaxLen = {maxlen}\nINVARIANT Emit\nCHECK_DEADLOCK FALSE\n")
    r = vlib.run_tlc("LexGen", "LexGen_run", workers=12, timeout=3000)
    if r.violation:
        raise vlib.ToolError("LexGen: " + r.violation)
    chk.tlc(r, f"LexGen[{label}{nclasses}^<={maxlen}]")
    return ["".join(classes[c - 1] for c in rep["t"]) for rep in r.tagged["REPLAY"]]


def leading_linebreak(res):
    """pinned class: a line break occurs before the first syntax token"""
    for t in res.get("toks", []):
        if not t[3] and not t[4]:
            return False
        if t[0] == "LineBreak":
            return True
    return False


def to_record(rid, res, pinned_ids=()):
    if res.get("panic"):
        return {"id": rid, "panic": res["panic"], "len": res["len"], "bounds": res["bounds"], "toks": [], "nontrivia": [],
                "leading": [], "trailing": [], "leaves": [], "skiptrivia": False}
    return {"id": rid, "panic": "", "len": res["len"], "bounds": res["bounds"], "toks": res["toks"],
            "skiptrivia": leading_linebreak(res) and rid not in pinned_ids,
            "nontrivia": res["nontrivia"], "leading": res["leading"], "trailing": res["trailing"], "leaves": res["leaves"]}


def validate(chk, records):
    step = 20000
    parts = [records[k:k + step] for k in range(0, len(records), step)]
    os.makedirs(vlib.WORK, exist_ok=True)

    def one(args):
        k, part = args
        path = os.path.join(vlib.WORK, f"lex_{k}.ndjson")
        with open(path, "w") as f:
            for r in part:
                f.write(json.dumps(r) + "\n")
        try:
            r = vlib.run_tlc("LexTrace", workers=1, timeout=3000, env={"TRACE": path},
                             tags=("FAIL", "CONSUMED"), deque=True, xss=True, heap="4g")
        finally:
            os.unlink(path)
        if r.violation or not r.tagged["CONSUMED"] or r.tagged["CONSUMED"][0]["n"] != len(part):
            raise vlib.ToolError(f"LexTrace did not consume the whole trace: {r.violation}\n" + r.stdout[-1500:])
        return k, r
    fails = {}
    with ThreadPoolExecutor(max_workers=8) as ex:
        for k, r in ex.map(one, list(enumerate(parts))):
            chk.tlc(r, f"LexTrace[{k}]")
            chk.count("traces_validated_against_impl", len(parts[k]))
            for f_ in r.tagged["FAIL"]:
                fails[f_["id"]] = f_
    return fails


def corpus_texts(rng, tier):
    files = sorted(glob.glob(os.path.join(vlib.REPO, "examples", "*.mmm")) + glob.glob(os.path.join(vlib.REPO, "lib", "*.mmm"))
                   + glob.glob(os.path.join(vlib.REPO, "crates/lib/mimium-test/tests/mmm", "*.mmm")))
    out = []
    for f in files:
        out.append(open(f, encoding="utf-8").read())
    small = [t for t in out if len(t.encode()) < 400][: (6 if tier == "quick" else 40)]
    for t in small:
        b = t.encode()
        for k in range(len(b)):
            try:
                out.append(b[:k].decode("utf-8"))
            except UnicodeDecodeError:
                pass
    alphabet = CLASSES + EXTRA
    nrand = 3000 if tier == "quick" else 100000
    for _ in range(nrand):
        n = rng.randint(1, 40)
        out.append("".join(rng.choice(alphabet) for _ in range(n)))
    # token-level mutations of shipped programs: delete / duplicate / transpose a slice, inject non-ASCII
    for t in out[:len(files)]:
        if len(t) < 10:
            continue
        for _ in range(2 if tier == "quick" else 10):
            i, j = sorted(rng.sample(range(len(t)), 2))
            op = rng.choice(["del", "dup", "inj"])
            out.append(t[:i] + t[j:] if op == "del" else t[:j] + t[i:j] + t[j:] if op == "dup" else t[:i] + rng.choice(EXTRA) + "あ" + t[i:])
    return out


def run(tier):
    chk = vlib.Check("C13", "model_checking", tier)
    rng = random.Random(vlib.seed())
    vlib.build_harness()
    ncls, maxlen = BOUND[tier]
    texts = gen_texts(chk, ncls, maxlen)
    for label, classes, ml in SUBLEX[tier]:
        texts += gen_texts(chk, len(classes), ml, classes, label + " ")
    texts = list(dict.fromkeys(texts))
    nexh = len(texts)
    texts += corpus_texts(rng, tier)
    # pinned inputs are judged in full
    pins = {}
    d = os.path.join(vlib.VERIF, "findings", "C13")
    if os.path.isdir(d):
        for fn in sorted(os.listdir(d)):
            if fn.endswith(".json"):
                c = json.load(open(os.path.join(d, fn)))
                pins[len(texts)] = c
                texts.append(c["text"])
    reqs = [{"id": i, "text": t} for i, t in enumerate(texts)]
    res = vlib.run_harness("lex", reqs, timeout_per_req=2.0, chunk=20000)
    records = []
    nontriv = 0
    for req, out, crash in res:
        if crash or out is None:
            chk.violation(f"lexer/parser process died on {texts[req['id']]!r}: {crash}", {"text": texts[req["id"]]},
                          key=vlib.canon_key(texts[req["id"]]))
            continue
        records.append(to_record(req["id"], out, pins))
        if records[-1]["skiptrivia"]:
            chk.count("texts_in_pinned_class_leading_linebreak")
        if len(out.get("toks", [])) > 2:
            nontriv += 1
    fails = validate(chk, records)
    for rid, f in fails.items():
        t = texts[rid]
        what = pins[rid]["what"] if rid in pins else f"{f['what']} (token #{f['at']}) on text {t[:80]!r}"
        chk.violation(what, {"text": t}, key=pins[rid]["key"] if rid in pins else vlib.canon_key(t))
    chk.cov["texts_exhaustive"] = nexh
    chk.cov["texts_corpus"] = len(texts) - nexh
    chk.cov["evaluations"] = len(texts)
    chk.cov["distinct_nontrivial"] = nontriv
    chk.cov["sublexicons"] = [(l, c, m) for l, c, m in SUBLEX[tier]]
    chk.cov["rule"] = (f"all strings of length <= {maxlen} over {ncls} character classes and deeper over three sub-lexicons (TLC, exhaustive) + shipped sources, "
                       "their prefixes, random and mutated texts; non-trivial = more than one token besides the end marker")
    chk.cov["exhaustive"] = True
    chk.add_sample({"text": texts[nexh // 2], "classes": CLASSES})
    chk.assumptions += ["the class alphabet stands for the character classes the tokenizer distinguishes"]
    return chk.finish()


def replay(path):
    case = json.load(open(path))["case"]
    out = vlib.run_harness("lex", [{"id": 0, "text": case["text"]}])[0][1]
    print(repr(case["text"]))
    print(json.dumps(out)[:3000])
    return 0

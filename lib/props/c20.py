"""C20 — values and types survive the plugin FFI encoding.

Ffi.tla defines the universe of macro-stage values and of types up to a depth /
width bound and the contract of a lossless channel that may refuse only what
cannot cross the boundary; TLC enumerates the universe exhaustively (and checks
the channel model).  Every item is pushed through the real encoders
(serialize_value/deserialize_value, serialize_macro_args/deserialize_macro_args,
the serde implementations of the interpreter's Value and of Type) and the
recorded outcomes are validated by FfiTrace.tla."""
import json
import os

import vlib

NUL_MARK = "\\u0000"


def mark(o, to_real):
    if isinstance(o, str):
        return o.replace(NUL_MARK, "\x00") if to_real else o.replace("\x00", NUL_MARK)
    if isinstance(o, list):
        return [mark(x, to_real) for x in o]
    if isinstance(o, dict):
        return {k: mark(v, to_real) for k, v in o.items()}
    return o


def run(tier):
    chk = vlib.Check("C20", "model_checking", tier)
    vlib.build_harness()
    depth = 2 if tier == "quick" else 3
    path = os.path.join(vlib.TLA_DIR, "Ffi_run.cfg")
    with open(path, "w") as f:
        f.write(f"SPECIFICATION Spec\nCONSTANTS\n  Depth = {depth}\n  Emit = TRUE\nINVARIANT Lossless\nINVARIANT InvEmit\nCHECK_DEADLOCK FALSE\n")
    r = vlib.run_tlc("Ffi", "Ffi_run", workers=8, timeout=1800)
    chk.tlc(r, f"Ffi[depth {depth}]")
    if r.violation:
        chk.violation(f"model: {r.violation} in Ffi.tla", {"tlc": vlib.tlc_error_trace(r.stdout)}, key="model")
    items = r.tagged["REPLAY"]
    reqs = []
    for i, it in enumerate(items):
        q = {"id": i}
        if "v" in it:
            q["v"] = mark(it["v"], True)
        else:
            q["t"] = it["t"]
        reqs.append(q)
    res = vlib.run_harness("ffi", reqs, timeout_per_req=2.0, chunk=2000)
    records = []
    for req, out, crash in res:
        it = items[req["id"]]
        item = it.get("v", it.get("t"))
        if crash or out is None:
            chk.violation(f"encoder process died on {json.dumps(item)[:200]}: {crash}", {"item": item}, key=vlib.canon_key(item))
            continue
        paths = []
        for pth in ("value_ret", "value_args", "value_serde", "type_serde"):
            if pth not in out:
                continue
            o = out[pth]
            got = mark(o.get("got"), False) if o.get("status") == "ok" else {"k": "nothing"}
            if pth == "type_serde" and o.get("status") == "ok":
                got = got["t"] if got.get("eq") else {"k": "decoded type not equal (==) to the encoded one", "t": got["t"]}
            paths.append({"path": pth, "status": o.get("status"), "got": got})
        records.append({"id": req["id"], "item": item, "sendable": it["sendable"], "paths": paths})
    # validate
    os.makedirs(vlib.WORK, exist_ok=True)
    fails = {}
    step = 4000
    for k in range(0, len(records), step):
        part = records[k:k + step]
        tp = os.path.join(vlib.WORK, f"ffi_{k}.ndjson")
        with open(tp, "w") as f:
            for rr in part:
                f.write(json.dumps(rr) + "\n")
        tr = vlib.run_tlc("FfiTrace", workers=1, timeout=1800, env={"TRACE": tp}, tags=("FAIL", "CONSUMED"),
                          deque=True, xss=True, heap="3g")
        os.unlink(tp)
        if tr.violation or not tr.tagged["CONSUMED"] or tr.tagged["CONSUMED"][0]["n"] != len(part):
            raise vlib.ToolError("FfiTrace did not consume the whole trace: " + str(tr.violation) + tr.stdout[-1200:])
        chk.tlc(tr, f"FfiTrace[{k}]")
        chk.count("traces_validated_against_impl", len(part))
        for f_ in tr.tagged["FAIL"]:
            fails.setdefault(f_["id"], []).append(f_)
    pins = {}
    d = os.path.join(vlib.VERIF, "findings", "C20")
    if os.path.isdir(d):
        for fn in sorted(os.listdir(d)):
            if fn.endswith(".json"):
                c = json.load(open(os.path.join(d, fn)))
                pins[c["key"]] = c
    for rid, fl in fails.items():
        item = records[rid]["item"] if rid < len(records) and records[rid]["id"] == rid else items[rid].get("v", items[rid].get("t"))
        for f_ in fl:
            key = vlib.canon_key({"item": item, "path": f_["path"]})
            what = pins[key]["what"] if key in pins else f"{f_['path']}: {f_['what']}: {json.dumps(item)[:300]}"
            chk.violation(what, {"item": item, "path": f_["path"]}, key=key)
    chk.cov["items"] = len(items)
    chk.cov["evaluations"] = sum(len(r_["paths"]) for r_ in records)
    chk.cov["distinct_nontrivial"] = len([1 for it in items if json.dumps(it).count('"k"') > 1])
    chk.cov["rule"] = f"every value and type of Ffi.tla's universe at depth {depth} (TLC, exhaustive); non-trivial = aggregate"
    chk.cov["exhaustive"] = True
    if items:
        chk.add_sample(items[len(items) // 2])
    chk.assumptions += ["TypeNodeId / ExprNodeId cross the boundary as interner keys (shared interner), as the code documents"]
    return chk.finish()


def replay(path):
    case = json.load(open(path))["case"]
    print(json.dumps(case)[:2000])
    return 0

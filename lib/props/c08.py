"""C08 — state migration plans are well-formed and keep everything that survives.

1. TLC (MCStateTree, SpecPairs): every ordered pair of layouts of a bounded
   universe; the invariants of StateTree.tla are checked on the transcription
   of tree_diff.rs; one REPLAY line per pair.
2. spec -> impl: the real build_state_storage_patch_plan is run on every
   enumerated pair and must produce exactly the transcription's plan, so the
   exhaustive verdict transfers to the code.
3. TLC (MCStateTree, SpecEdits): all single subtree deletions / insertions with
   survivor tracking.
4. impl -> spec: real plans (a sample of the enumerated pairs plus larger
   random pairs derived by edit scripts, <= 40 nodes) are validated by
   StateTreeTrace.tla against the predicates themselves.
"""
import json
import os
import random

import vlib

MODES = {"BacktrackMode": "table", "ScoreMode": "nodes2"}   # transcription of the current code


def _cfg(name, spec, universe, emit, maxedits, invs):
    path = os.path.join(vlib.TLA_DIR, name + ".cfg")
    with open(path, "w") as f:
        f.write(f"SPECIFICATION {spec}\nCONSTANTS\n  Universe = \"{universe}\"\n  Emit = {emit}\n"
                f"  MaxEdits = {maxedits}\n  BacktrackMode = \"{MODES['BacktrackMode']}\"\n"
                f"  ScoreMode = \"{MODES['ScoreMode']}\"\n")
        for i in invs:
            f.write(f"INVARIANT {i}\n")
        f.write("CHECK_DEADLOCK FALSE\n")
    return name


def tree_str(t):
    if t["k"] == "fn":
        return "Fn[" + ",".join(tree_str(c) for c in t["ch"]) + "]"
    return {"delay": "D", "mem": "M", "feed": "F"}[t["k"]] + str(t["n"])


def size(t):
    if t["k"] == "fn":
        return sum(size(c) for c in t["ch"])
    return t["n"] + 2 if t["k"] == "delay" else t["n"]


def nodes(t):
    return 1 + sum(nodes(c) for c in t["ch"]) if t["k"] == "fn" else 1


# ---- random larger trees and edit scripts (impl -> spec direction) ----------
def rand_leaf(rng):
    k = rng.choice(["delay", "mem", "feed"])
    return {"k": k, "n": rng.choice([1, 1, 2, 3] if k != "delay" else [1, 2, 4])}


def rand_tree(rng, budget, depth=0):
    if budget <= 1 or depth >= 4 or rng.random() < 0.3:
        return rand_leaf(rng)
    n = rng.randint(0, min(4, budget - 1))
    ch = []
    rest = budget - 1
    for _ in range(n):
        b = rng.randint(1, max(1, rest // max(1, n)))
        ch.append(rand_tree(rng, b, depth + 1))
        rest -= b
    return {"k": "fn", "ch": ch}


def paths(t, pre=()):
    yield pre
    if t["k"] == "fn":
        for i, c in enumerate(t["ch"]):
            yield from paths(c, pre + (i,))


def sub(t, p):
    for i in p:
        t = t["ch"][i]
    return t


def clone(t):
    return json.loads(json.dumps(t))


def edit(rng, t, kind):
    """one random deletion or insertion; returns a new tree (root stays a fn)."""
    t = clone(t)
    ps = list(paths(t))
    if kind == "del":
        cand = [p for p in ps if p]
        if not cand:
            return t
        p = rng.choice(cand)
        sub(t, p[:-1])["ch"].pop(p[-1])
    else:
        cand = [p for p in ps if sub(t, p)["k"] == "fn"]
        p = rng.choice(cand)
        ch = sub(t, p)["ch"]
        ch.insert(rng.randint(0, len(ch)), rand_tree(rng, rng.randint(1, 5), 3))
    return t


def random_pairs(rng, n):
    out = []
    for i in range(n):
        old = rand_tree(rng, rng.randint(3, 40))
        if old["k"] != "fn":
            old = {"k": "fn", "ch": [old]}
        mode = rng.choice(["del", "ins", "mixed", "same"])
        new = old
        if mode == "same":
            new = clone(old)
        else:
            for _ in range(rng.randint(1, 3)):
                kind = mode if mode != "mixed" else rng.choice(["del", "ins"])
                new = edit(rng, new, kind)
        rel = mode if mode in ("del", "ins") and new != old else "none"
        out.append({"id": f"r{i}", "old": old, "new": new, "rel": rel, "cmp": False})
    return out


# ---- sibling lists over a palette of weights (impl -> spec direction) ----------
# The diff aligns the children of two call nodes by a weighted LCS: what decides an alignment is the weight of a
# subtree (its state words, or half its node count when it holds no state) against the score of a partial match.
# The palette spans that space: leaves of 1..3 words, stateless calls of 1..5 nodes, calls that mix both.
def _fn(*ch):
    return {"k": "fn", "ch": list(ch)}


E0 = _fn()
PALETTE = [
    {"k": "mem", "n": 1}, {"k": "mem", "n": 3}, {"k": "delay", "n": 2}, {"k": "feed", "n": 1},
    E0, _fn(E0, E0), _fn(E0, E0, E0, E0),
    _fn(E0, E0, E0, E0, {"k": "mem", "n": 1}), _fn(E0, E0, {"k": "delay", "n": 2}), _fn({"k": "mem", "n": 3}),
]


def palette_pairs(rng, limit):
    """every list of <= 3 palette elements (and a seeded sample of the lists of 4) with every single deletion of a
    child, in both directions (deletion / insertion): the survivors of such a pair are unambiguous"""
    import itertools
    lists = [list(t) for n in range(1, 4) for t in itertools.product(range(len(PALETTE)), repeat=n)]
    four = [list(t) for t in itertools.product(range(len(PALETTE)), repeat=4)]
    rng.shuffle(four)
    lists += four[:max(0, limit // 8)]
    out = []
    for li in lists:
        old = _fn(*[clone(PALETTE[i]) for i in li])
        for d in range(len(li)):
            new = _fn(*[clone(PALETTE[i]) for j, i in enumerate(li) if j != d])
            if new == old:
                continue
            out.append((old, new, "del"))
            out.append((new, old, "ins"))
    if len(out) > limit:
        keep = out[:2 * sum(len(l) for l in lists if len(l) <= 2)]      # the short lists always
        restp = out[len(keep):]
        rng.shuffle(restp)
        out = keep + restp[:limit - len(keep)]
    return [{"id": f"p{i}", "old": o, "new": n, "rel": rel, "cmp": False} for i, (o, n, rel) in enumerate(out)]


def displaced_pairs():
    """one sibling list edited by removals AND additions: k subtrees removed in front of a survivor, m added behind it
    (and the mirror image), so that the survivor moves by up to three positions whatever the difference of the two
    lengths is; removed and added subtrees share no shape with each other or with the survivor.  The plan must carry
    the survivor (MaximalAtRoot of StateTree.tla)."""
    survivors = [_fn({"k": "feed", "n": 1}), {"k": "mem", "n": 3}, _fn(E0, E0, {"k": "delay", "n": 2}), _fn({"k": "mem", "n": 3}, {"k": "feed", "n": 1})]
    removed = [{"k": "mem", "n": 1}, {"k": "delay", "n": 4}, _fn({"k": "mem", "n": 2}), {"k": "feed", "n": 2}]
    added = [{"k": "delay", "n": 8}, {"k": "delay", "n": 16}, _fn({"k": "delay", "n": 3}), {"k": "mem", "n": 5}]
    out = []
    for si, sv in enumerate(survivors):
        for k in range(0, 4):
            for m in range(0, 4):
                if k + m == 0:
                    continue
                for keep_tail in (False, True):
                    tail = [{"k": "mem", "n": 7}] if keep_tail else []
                    old = _fn(*[clone(x) for x in removed[:k]], clone(sv), *[clone(x) for x in tail])
                    new = _fn(clone(sv), *[clone(x) for x in added[:m]], *[clone(x) for x in tail])
                    out.append((old, new))
                    out.append((new, old))
                    # the same inside a nested call
                    out.append((_fn({"k": "feed", "n": 1}, old), _fn({"k": "feed", "n": 1}, new)))
    return [{"id": f"d{i}", "old": o, "new": n, "rel": "none", "cmp": False} for i, (o, n) in enumerate(out)]


def to_trace_record(req, res):
    plan = res.get("plan")
    return {"id": req["id"], "old": req["old"], "new": req["new"], "rel": req.get("rel", "none"),
            "cmp": bool(req.get("cmp", False)), "hasplan": plan is not None,
            "plan": plan if plan is not None else {"total": 0, "patches": []},
            "applied": res.get("applied") or [], "direct": res.get("direct") or [],
            "panic": res.get("panic", "")}


def validate_traces(chk, records, label):
    """StateTreeTrace.tla over real plans. Returns failing ids -> predicates."""
    os.makedirs(vlib.WORK, exist_ok=True)
    path = os.path.join(vlib.WORK, f"c08_{label}.ndjson")
    with open(path, "w") as f:
        for r in records:
            f.write(json.dumps(r) + "\n")
    cfgp = os.path.join(vlib.TLA_DIR, "StateTreeTrace.cfg")
    with open(cfgp, "w") as f:
        f.write("SPECIFICATION Spec\nCONSTANTS\n"
                f"  BacktrackMode = \"{MODES['BacktrackMode']}\"\n  ScoreMode = \"{MODES['ScoreMode']}\"\n"
                "POSTCONDITION Accepted\nCHECK_DEADLOCK FALSE\n")
    r = vlib.run_tlc("StateTreeTrace", workers=1, timeout=1500, env={"TRACE": path},
                     tags=("FAIL", "CONSUMED"), deque=True, xss=True, heap="4g")
    os.unlink(path)
    if r.violation or not r.tagged["CONSUMED"] or r.tagged["CONSUMED"][0]["n"] != len(records):
        raise vlib.ToolError(f"StateTreeTrace did not consume the whole trace ({label}): {r.violation}\n"
                             + r.stdout[-1500:])
    chk.tlc(r, f"StateTreeTrace[{label}]")
    chk.count("traces_validated_against_impl", len(records))
    return {f["id"]: f["failed"] for f in r.tagged["FAIL"]}


def run(tier):
    chk = vlib.Check("C08", "model_checking", tier)
    rng = random.Random(vlib.seed())
    universe = "small" if tier == "quick" else "mid"
    vlib.build_harness()

    # 1. exhaustive pairs on the transcription, with REPLAY lines
    cfg = _cfg("MCStateTree_run", "SpecPairs", universe, "TRUE", 0,
               ["InvWellFormed", "InvNoOp", "InvZeroElsewhere", "InvMaximal", "InvCoverDel", "InvCoverIns", "InvEmit"])
    r = vlib.run_tlc("MCStateTree", cfg, timeout=3000 if tier == "thorough" else 900, workers=14)
    chk.tlc(r, f"MCStateTree/SpecPairs[{universe}]")
    pairs = r.tagged["REPLAY"]
    if r.violation:
        tr = vlib.tlc_error_trace(r.stdout)
        chk.violation(f"model: {r.violation} on the transcription of tree_diff.rs ({universe} universe)",
                      {"tlc": tr, "job": "SpecPairs"}, key="model-" + r.violation.replace(" ", "_"))
    # 2. binding: real plan == transcription's plan for every enumerated pair
    reqs = [{"id": i, "old": p["old"], "new": p["new"]} for i, p in enumerate(pairs)]
    res = vlib.run_harness("tree", reqs, timeout_per_req=2.0, chunk=4000)
    nontriv = set()
    mism = 0
    mismatching = []
    by_id = {}
    for req, out, crash in res:
        p = pairs[req["id"]]
        case = {"old": req["old"], "new": req["new"]}
        if crash or out is None:
            chk.violation(f"state-tree crashed on old={tree_str(req['old'])} new={tree_str(req['new'])}: {crash}", case)
            continue
        by_id[req["id"]] = out
        if "panic" in out:
            chk.violation(f"state-tree panicked on old={tree_str(req['old'])} new={tree_str(req['new'])}: {out['panic']}", case)
            continue
        real_none = out["plan"] is None
        real = sorted(tuple(x) for x in (out["plan"] or {"patches": []})["patches"])
        model = sorted(tuple(x) for x in p["patches"])
        if real_none != p["none"] or (not real_none and (real != model or out["plan"]["total"] != p["total"])):
            # the code no longer does what the transcription says: that alone is no violation (another
            # plan may satisfy the property as well), but the exhaustive verdict on the transcription
            # does not transfer to this pair any more; the predicates are evaluated on the real plan
            mism += 1
            mismatching.append(req["id"])
        if not real_none and real:
            nontriv.add((tree_str(req["old"]), tree_str(req["new"])))
    chk.count("evaluations", len(reqs))
    chk.cov["pairs_enumerated"] = len(pairs)
    chk.cov["pairs_bound_to_code"] = len(by_id)
    chk.cov["plan_mismatches"] = mism
    chk.cov["verdict_transfers_by_plan_equality"] = (mism == 0)
    chk.cov["exhaustive"] = (r.violation is None)
    if pairs:
        s = pairs[len(pairs) // 3]
        chk.add_sample({"old": tree_str(s["old"]), "new": tree_str(s["new"]), "model_patches": s["patches"]})

    # 3. single-edit scripts with survivor tracking
    cfg = _cfg("MCStateTree_edits_run", "SpecEdits", universe, "FALSE", 1,
               ["InvWellFormed", "InvSurvivors1", "InvMaximal", "InvCoverDel", "InvCoverIns"])
    r2 = vlib.run_tlc("MCStateTree", cfg, timeout=3000 if tier == "thorough" else 600, workers=14)
    chk.tlc(r2, f"MCStateTree/SpecEdits[{universe}]")
    if r2.violation:
        chk.violation(f"model: {r2.violation} on single-edit scripts ({universe} universe)",
                      {"tlc": vlib.tlc_error_trace(r2.stdout), "job": "SpecEdits"},
                      key="model-edits-" + r2.violation.replace(" ", "_"))

    # 4. impl -> spec: predicates on real plans
    nrand = 1500 if tier == "quick" else 20000
    nsample = 1500 if tier == "quick" else 10000
    rp = random_pairs(rng, nrand) + palette_pairs(rng, 12000 if tier == "quick" else 80000) + displaced_pairs()
    rres = vlib.run_harness("tree", rp, timeout_per_req=5.0)
    records = []
    for req, out, crash in rres:
        if crash or out is None:
            chk.violation(f"state-tree crashed on random pair {req['id']}: {crash}", {"old": req["old"], "new": req["new"]})
            continue
        records.append(to_trace_record(req, out))
        if out.get("plan") and out["plan"]["patches"]:
            nontriv.add((tree_str(req["old"]), tree_str(req["new"])))
    ids = list(by_id.keys())
    rng.shuffle(ids)
    if mismatching:
        vlib.log(f"[C08] {len(mismatching)} enumerated pairs: real plan differs from the transcription; "
                 "validating the real plans of all of them directly")
    chosen = list(dict.fromkeys(mismatching[:20000] + ids[:nsample]))
    for i in chosen:
        req = {"id": f"e{i}", "old": pairs[i]["old"], "new": pairs[i]["new"], "rel": pairs[i].get("rel", "none"), "cmp": False}
        records.append(to_trace_record(req, by_id[i]))
    cases = {r_["id"]: r_ for r_ in records}
    # chunks keep one TLC run short
    fails = {}
    step = 4000
    for k in range(0, len(records), step):
        fails.update(validate_traces(chk, records[k:k + step], f"{tier}{k // step}"))
    for fid, preds in fails.items():
        c = cases[fid]
        chk.violation(f"real migration plan fails {preds}: old={tree_str(c['old'])} new={tree_str(c['new'])} "
                      f"plan={c['plan']['patches']} rel={c['rel']}",
                      {"old": c["old"], "new": c["new"], "failed": preds, "plan": c["plan"]})
    chk.count("evaluations", len(rp))
    chk.cov["random_pairs"] = nrand
    chk.cov["palette_pairs"] = len(rp) - nrand
    chk.cov["distinct_nontrivial"] = len(nontriv)
    chk.cov["rule"] = ("ordered pairs of all layouts of the universe (TLC, exhaustive) + random pairs derived by "
                       "deletion/insertion scripts (<= 40 nodes) + single deletions / insertions in sibling lists over a palette of "
                       "subtree weights (stateful leaves, stateless calls of 1..5 nodes, mixed calls); non-trivial = distinct (old,new) whose real plan "
                       "has at least one patch")
    if rp:
        s = rp[0]
        chk.add_sample({"old": tree_str(s["old"]), "new": tree_str(s["new"]), "rel": s["rel"]})

    # 5. self-test of the binding (thorough): a corrupted plan must be rejected
    if tier == "thorough" and records:
        bad = json.loads(json.dumps(next(r_ for r_ in records if r_["hasplan"] and r_["plan"]["patches"])))
        bad["plan"]["patches"][0][2] += 1
        bad["id"] = "selftest"
        f = validate_traces(chk, [bad], "selftest")
        chk.cov["selftest_corrupted_plan_rejected"] = "selftest" in f
        if "selftest" not in f:
            raise vlib.ToolError("self-test: corrupted plan was accepted by StateTreeTrace")
    chk.assumptions += [
        "the JSON codec between TLC and the harness is trusted",
        "survivor claims beyond single edits are limited to coverage (every word of new written / every word of old read), "
        "because longer scripts have several explanations with different survivors",
    ]
    return chk.finish()


def replay(path):
    case = json.load(open(path))["case"]
    if "old" not in case:
        print(json.dumps(case, indent=1)[:3000])
        return 0
    res = vlib.run_harness("tree", [{"id": "replay", "old": case["old"], "new": case["new"]}])
    print(json.dumps(res[0][1], indent=1))
    return 0

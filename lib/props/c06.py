"""C06 — hot-swapping an unchanged program is inaudible.

1. Runtime.tla: TLC generates stateful programs (LangGen) and explores every
   history Tick^a; Swap; Tick^b [; Swap; Tick^c] over the allowed split points;
   on the model the swap is a stutter on <<cells, now>> (action property) and
   the outputs equal the uninterrupted run (invariant). Every history is
   replayed on VM and WASM through the real hot-swap paths (VM: fresh
   emit_bytecode + try_hot_swap -> new_resume; WASM: fresh emit_wasm + the CLI's
   payload composition + try_hot_swap) and compared with the model's outputs.
2. Shipped stateful sources (beyond the integer fragment): a swapped instance and
   an uninterrupted twin are recorded and validated by Lockstep.tla (bit-equal
   outputs and state words at every sample)."""
import glob
import json
import os
import re

import langpipe
import printer
import vlib
from props.c01 import SPECIAL_INPUTS

JOBS = {
    "quick": [
        ("f3", {"Template": '"f"', "Budget": 3, "NSamples": 7, "Ops": '{"+", "*"}',
                "Helpers": '{"counter", "lag", "pacc", "dl", "nest", "acc7"}',
                "Prods": '{"now", "mem", "delay", "proj", "let", "lett", "tup"}',
                "SwapAt": "{0, 1, 2, 5}", "MaxSwaps": 2}),
        # a global constant computed through a stateful call: main is re-run by the swap and must not
        # touch (or read) the state carried over for dsp
        ("glob3", {"Template": '"dsp"', "Budget": 3, "NSamples": 7, "Ops": '{"+"}', "GlobalSet": '"stateful"',
                   "Helpers": '{"counter", "lag", "pacc", "dl"}', "Prods": '{"now", "mem", "delay", "proj"}',
                   "SwapAt": "{0, 1, 3}", "MaxSwaps": 2}),
        ("dsp3in", {"Template": '"dsp"', "UseInput": "TRUE", "Budget": 3, "NSamples": 7, "Ops": '{"+", "-"}',
                    "Helpers": '{"counter", "lag", "pacc", "dl", "nest", "acc7"}',
                    "Prods": '{"now", "mem", "delay", "proj", "if"}',
                    "SwapAt": "{1, 3}", "MaxSwaps": 2}),
    ],
    "thorough": [
        ("f4", {"Template": '"f"', "Budget": 4, "NSamples": 9, "Ops": '{"+", "*"}',
                "Helpers": '{"counter", "lag", "pacc", "dl", "nest", "acc7"}',
                "Prods": '{"now", "mem", "delay", "proj", "let", "lett", "tup", "if"}',
                "SwapAt": "{0, 1, 2, 3, 4, 5, 6, 7, 8}", "MaxSwaps": 3}),
        ("dsp4in", {"Template": '"dsp"', "UseInput": "TRUE", "Budget": 4, "NSamples": 8, "Ops": '{"+", "-"}',
                    "Helpers": '{"counter", "lag", "pacc", "dl", "nest", "acc7"}',
                    "Prods": '{"now", "mem", "delay", "proj", "if", "let"}',
                    "SwapAt": "{0, 1, 2, 5}", "MaxSwaps": 2}),
    ],
}
SPLITS = {"quick": [[0, 1, 37, 100, 100]],
          "thorough": [[0], [1], [2], [5], [100], [1000], [100, 100], [37, 200, 201], [999, 1000, 1001], [48000]]}


# programs whose state cells take special values (the inputs come from C01's list of special samples)
SPECIAL_STATE = {
    "self_in": "fn acc(x){ self * 0.5 + x }\nfn dsp(x){ acc(x) }\n",
    "mem_in": "fn dsp(x){ mem(x) * 2.0 + x }\n",
    "delay_in": "fn dsp(x){ delay(4, x, 2) + delay(3, x * 0.5, 1) }\n",
    "pair_self": "fn p(x){\n  let (a, b) = self\n  (a + x, b * 2.0 + a)\n}\nfn dsp(x){\n  let (a, b) = p(x)\n  a + b\n}\n",
    "self_sqrt": "fn f(){ sqrt(0.5 - self) }\nfn dsp(){ f() }\n",
    "self_div": "fn g(x){ 1.0 / (self - x) }\nfn dsp(x){ g(x) }\n",
    "mem_log": "fn dsp(x){ mem(log(x)) + mem(0.0 - x) }\n",
    "neg_zero": "fn z(x){ 0.0 - self * x }\nfn dsp(x){ 1.0 / z(x) }\n",
    "self_grow": "fn up(){ (self + 1.0) * 1000000000000.0 * (self + 1.0) }\nfn dsp(){ up() }\n",
}


def runtime_cfg(name, consts):
    c = dict(langpipe.DEFAULT_CONSTS)
    c.update(consts)
    path = os.path.join(vlib.TLA_DIR, name + ".cfg")
    with open(path, "w") as f:
        f.write("SPECIFICATION RSpec\nCONSTANTS\n")
        for k, v in c.items():
            f.write(f"  {k} = {v}\n")
        f.write("INVARIANT SwapInaudible\nINVARIANT EmitHistory\nPROPERTY SwapIsStutter\nCHECK_DEADLOCK FALSE\n")
    return name


def swaps_of(hist, src):
    out, t = [], 0
    for h in hist:
        if h == "tick":
            t += 1
        else:
            out.append({"at": t, "src": src})
    return out


_CONST_LET = re.compile(r"^let\s+\w+\s*=\s*[-+*/(). \d]+\s*(//.*)?$")


def in_scope(src):
    """C06 speaks about programs whose signal state lives in self/mem/delay cells reachable from
    dsp: no scheduler (`@`), no global variables other than numeric constants (a global closure
    or a mutated global keeps state outside dsp's call tree; `main` is re-run by a swap)."""
    code = "\n".join(l.split("//")[0] for l in src.split("\n"))
    if "@" in code or "#stage(macro)" in code or "!" in code.replace("!=", ""):
        return False
    for l in code.split("\n"):
        if l.startswith("let ") and not _CONST_LET.match(l.strip()):
            return False
    return "fn dsp" in code


def stateful_shipped():
    """shipped sources inside the property's scope"""
    fs = sorted(glob.glob(os.path.join(vlib.REPO, "examples", "*.mmm"))
                + glob.glob(os.path.join(vlib.REPO, "crates/lib/mimium-test/tests/mmm", "*.mmm")))
    return [f for f in fs if in_scope(open(f).read())]


def pinned_files():
    d = os.path.join(vlib.VERIF, "findings", "C06")
    out = {}
    if os.path.isdir(d):
        for fn in sorted(os.listdir(d)):
            if fn.endswith(".json"):
                c = json.load(open(os.path.join(d, fn)))
                out[c["key"]] = c
    return out


def run(tier):
    chk = vlib.Check("C06", "model_checking", tier)
    vlib.build_harness()
    nhist = 0
    distinct = set()
    for label, consts in JOBS[tier]:
        cfg = runtime_cfg(f"Runtime_{label}_run", consts)
        r = vlib.run_tlc("Runtime", cfg, timeout=3000, workers=12)
        chk.tlc(r, f"Runtime[{label}]")
        if r.violation:
            chk.violation(f"model: {r.violation} in Runtime.tla ({label})", {"tlc": vlib.tlc_error_trace(r.stdout)},
                          key="model-" + label + "-" + r.violation.replace(" ", "_"))
        reps = r.tagged["REPLAY"]
        reqs = []
        for i, rep in enumerate(reps):
            src = printer.program(rep["prog"])
            req = langpipe.to_request(i, rep, swaps=swaps_of(rep["hist"], src))
            reqs.append(req)
        res = vlib.run_harness("run", reqs, timeout_per_req=20)
        for req, out, crash in res:
            rep = reps[req["id"]]
            nhist += 1
            hist = "".join("T" if h == "tick" else "S" for h in rep["hist"])
            case = {"src": req["src"], "hist": hist, "inputs": rep["inputs"], "expect": rep["expect"], "job": label}
            key = vlib.canon_key(req["src"] + hist)
            if crash or out is None:
                chk.violation(f"runtime process died during history {hist}: {crash}\n{req['src']}", case, key=key)
                continue
            for be in ("vm", "wasm"):
                b = out[be]
                d = langpipe.compare_outputs(rep, b)
                okswaps = all(s.get("ok") for s in b.get("swaps", []))
                if d or not okswaps:
                    chk.violation(f"{be}: history {hist}: {d or 'hot swap refused: ' + json.dumps(b.get('swaps'))}\n{req['src']}",
                                  dict(case, backend=be), key=key)
            distinct.add(key)
        if reps:
            s = reps[len(reps) // 2]
            chk.add_sample({"job": label, "source": printer.program(s["prog"]), "history": s["hist"], "expect": s["expect"]})

    # shipped sources: swapped instance vs uninterrupted twin
    pins = pinned_files()
    files = stateful_shipped()
    reqs = []
    for f in files:
        src = open(f).read()
        for si, split in enumerate(SPLITS[tier]):
            total = max(split) + 64
            base = {"src": src, "n": total, "path": f, "backends": ["vm", "wasm"], "sched": True, "rec": {"words": "digest"}}
            reqs.append(dict(base, id=f"{os.path.basename(f)}|{split}|swapped", swaps=[{"at": a, "src": src} for a in split]))
        reqs.append({"id": f"{os.path.basename(f)}|twin", "src": src, "n": max(max(s) for s in SPLITS[tier]) + 64,
                     "path": f, "backends": ["vm", "wasm"], "sched": True, "rec": {"words": "digest"}})
    res = vlib.run_harness("run", reqs, timeout_per_req=120, chunk=4)
    by = {req["id"]: (req, out, crash) for req, out, crash in res}
    records, meta = [], {}
    for rid, (req, out, crash) in by.items():
        if not rid.endswith("|swapped"):
            continue
        name = rid.split("|")[0]
        twin = by.get(f"{name}|twin")
        key = vlib.canon_key(req["src"])
        case = {"file": req["path"], "split": rid.split("|")[1], "src": req["src"]}
        if crash or out is None or twin is None or twin[2] or twin[1] is None:
            if crash:
                chk.violation(f"runtime process died while hot-swapping {name} at {case['split']}: {crash}", case, key=key)
            continue
        for be in ("vm", "wasm"):
            a, b = out[be], twin[1][be]
            if b.get("status") != "ok" or not b.get("out"):
                continue                      # the program does not run on this backend at all: nothing to swap
            nn = len(a.get("out", []))
            bb = dict(b, out=b["out"][:nn], words=b.get("words", [])[:nn])
            if not all(s.get("ok") for s in a.get("swaps", [])):
                chk.violation(f"{be}: hot swap of the unchanged source {name} refused: {json.dumps(a.get('swaps'))[:300]}", dict(case, backend=be),
                              key=vlib.canon_key(req["src"] + "|" + be))
                continue
            rrid = f"{rid}|{be}"
            records.append({"id": rrid, "a": langpipe.side(a), "b": langpipe.side(bb), "cmpwords": False})
            # a finding is a (source, runtime) pair: the same file failing on the other runtime is another violation
            meta[rrid] = (name, dict(case, backend=be), vlib.canon_key(req["src"] + "|" + be))
            nhist += 1
    # special values in the state cells: self / mem / delay / tuple-valued self fed from dsp's input (NaN, infinities,
    # signed zeros, denormals, huge values) or from computations that leave the finite numbers; every split point
    n_sp = 14
    sreqs = []
    for name, src in SPECIAL_STATE.items():
        for rot in range(2 if tier == "quick" else 4):
            inputs = [[SPECIAL_INPUTS[(t * 5 + rot * 3) % len(SPECIAL_INPUTS)]] for t in range(n_sp)]
            base = {"src": src, "n": n_sp, "backends": ["vm", "wasm"], "sched": True, "rec": {"words": "digest"},
                    **({"inputs": inputs} if "dsp(x)" in src else {})}
            sreqs.append(dict(base, id=f"special:{name}:{rot}|twin"))
            for split in [[a] for a in range(0, n_sp - 1)] + [[3, 4], [6, 6], [2, 9]]:
                sreqs.append(dict(base, id=f"special:{name}:{rot}|{split}|swapped", swaps=[{"at": a, "src": src} for a in split]))
            if "dsp(x)" not in src:
                break
    sres = vlib.run_harness("run", sreqs, timeout_per_req=30)
    sby = {req["id"]: (req, out, crash) for req, out, crash in sres}
    for rid, (req, out, crash) in sby.items():
        if not rid.endswith("|swapped"):
            continue
        name, split = rid.split("|")[0], rid.split("|")[1]
        twin = sby[f"{name}|twin"]
        case = {"src": req["src"], "split": split, "inputs": req.get("inputs"), "name": name}
        key = vlib.canon_key(req["src"] + "|" + name)
        if crash or out is None or twin[2] or twin[1] is None:
            chk.violation(f"runtime process died while hot-swapping {name} at {split}: {crash or twin[2]}\n{req['src']}", case, key=key)
            continue
        for be in ("vm", "wasm"):
            a, b = out[be], twin[1][be]
            if b.get("status") != "ok" or not b.get("out"):
                chk.violation(f"{be}: {name} does not run: {b.get('status')} {b.get('msg', '')[:200]}\n{req['src']}", dict(case, backend=be),
                              key=vlib.canon_key(req["src"] + "|" + be))
                continue
            if not all(s_.get("ok") for s_ in a.get("swaps", [])):
                chk.violation(f"{be}: hot swap of the unchanged source {name} refused: {json.dumps(a.get('swaps'))[:300]}",
                              dict(case, backend=be), key=vlib.canon_key(req["src"] + "|" + be))
                continue
            rrid = f"{rid}|{be}"
            records.append({"id": rrid, "a": langpipe.side(a), "b": langpipe.side(b), "cmpwords": False})
            meta[rrid] = (name, dict(case, backend=be), vlib.canon_key(req["src"] + "|" + be))
            nhist += 1
    chk.cov["special_state_histories"] = len(sreqs)
    fails = langpipe.validate_lockstep(chk, records, "c06")
    for rrid, f in fails.items():
        name, case, key = meta[rrid]
        be = rrid.split("|")[-1]
        what = pins[key]["what"] if key in pins else \
            f"{be}: {name} swapped at {case['split']} differs from the uninterrupted run ({f['what']} at sample {f['at']})"
        chk.violation(what, case, key=key)
    chk.cov["histories_replayed"] = nhist
    chk.cov["evaluations"] = nhist
    chk.cov["distinct_nontrivial"] = len(distinct) + len(records)
    chk.cov["rule"] = ("stateful generated programs x all histories over the allowed split points (TLC, exhaustive) + shipped "
                       "sources x fixed split points; distinct = program x history")
    chk.cov["exhaustive"] = True
    chk.assumptions += ["state in main-created closures / mutated globals is outside the property (pinned findings hof_state, stateful_closure)"]
    return chk.finish()


def replay(path):
    case = json.load(open(path))["case"]
    print(json.dumps({k: v for k, v in case.items() if k != "src"}))
    print(case.get("src", "")[:3000])
    return 0

"""C19 — concurrent compilations do not interfere.

Model: Session.tla with several threads per process; TLC explores every
interleaving of the compile steps of K threads over the shared interner and
checks that what each compilation yields is still a function of its source
(Deterministic) and that no started compilation can be blocked for good; the
modelled race (a thread reads the interner entry another thread is writing)
must be refuted.
Code: the harness starts K threads in one process that compile and run their
jobs at the same time (distinct and identical sources, programs with macros,
programs that are refused), with seeded yields injected before acquisitions of
the session lock.  Every thread's observation (bytecode listing, WASM bytes,
state layout, samples, diagnostics) is validated against the solo observation
of the same source by DeterminismTrace.tla; a round that does not return is a
deadlock.  In logged rounds every interner operation is recorded under the
lock and SessionTrace.tla validates that the history is one of a sequential
interner; a nested acquisition (which would block for ever) is refused by the
hook and shows up as a thread panic."""
import glob
import json
import os
import random

import langpipe
import printer
import vlib
from props.c15 import observation, validate

ROUNDS = {"quick": 40, "thorough": 1200}
KS = {"quick": [4], "thorough": [2, 4, 8, 16]}
LOGGED = {"quick": 4, "thorough": 24}
NSAMPLES = 16


def corpus(chk, tier):
    files = sorted(glob.glob(os.path.join(vlib.REPO, "crates/lib/mimium-test/tests/mmm", "*.mmm")))
    files = files[::6] if tier == "quick" else files[::2]
    out = [(os.path.relpath(f, vlib.REPO), open(f).read(), f) for f in files]
    reps = langpipe.generate(chk, "c19", {"Template": '"f"', "Budget": 3}, timeout=600)
    step = max(1, len(reps) // 24)
    for i, r in enumerate(reps[::step][:24]):
        out.append((f"gen{i}", printer.program(r["prog"]), None))
    out.append(("refused1", "fn dsp(){ 1 + }\n", None))
    out.append(("refused2", "fn dsp(){ undefined_name(1) }\n", None))
    out += [(k, v, None) for k, v in GOOD_MACRO.items()]
    out += [(k, v, None) for k, v in FAULTS.items()]
    out += [(k, v, None) for k, v in COUNTERS.items()]
    return out


def model(chk, tier):
    def cfg(name, leak, threads, ncomp):
        path = os.path.join(vlib.TLA_DIR, name + ".cfg")
        with open(path, "w") as f:
            f.write("SPECIFICATION Spec\nCONSTANTS\n  Sources = {s1, s2}\n  NProcs = 1\n"
                    f"  NThreads = {threads}\n  MaxCompiles = {ncomp}\n  Seeds = {{1}}\n  Leak = \"{leak}\"\n"
                    "INVARIANT Deterministic\nINVARIANT NoStuckThread\nCHECK_DEADLOCK FALSE\n")
        return name
    for threads, ncomp in ((2, 4), (3, 4 if tier == "quick" else 5)):
        r = vlib.run_tlc("Session", cfg("Session_c19_run", "none", threads, ncomp), workers=6, timeout=1200)
        if r.violation:
            raise vlib.ToolError("Session.tla violates its invariants without a leak: " + vlib.tlc_error_trace(r.stdout)[:1200])
        chk.tlc(r, f"Session[{threads} threads]")
    # the environment-variable guard as implemented: fine for one thread, broken for two (the model of the
    # defect reported below when the real runs show it)
    for threads, expect in ((1, False), (2, True)):
        name = cfg("Session_c19_env_run", "none", threads, 4)
        path = os.path.join(vlib.TLA_DIR, name + ".cfg")
        txt = open(path).read().replace("INVARIANT Deterministic\nINVARIANT NoStuckThread\n", "INVARIANT EnvRestored\n")
        open(path, "w").write(txt)
        r = vlib.run_tlc("Session", name, workers=4, timeout=600)
        if bool(r.violation) != expect:
            raise vlib.ToolError(f"Session.tla: EnvRestored with {threads} thread(s): violation={r.violation!r}, expected {expect}")
        chk.tlc(r, f"Session[env guard, {threads} thread(s){': violation expected' if expect else ''}]")
    r = vlib.run_tlc("Session", cfg("Session_c19_leak_run", "race", 2, 4), workers=4, timeout=600)
    if not r.violation:
        raise vlib.ToolError("Session.tla: the modelled race does not violate Deterministic (vacuous model)")
    chk.tlc(r, "Session[race: violation expected]")
    # a job that panics while it holds the session lock poisons it for everybody (one source of the model is faulty)
    r = vlib.run_tlc("Session", cfg("Session_c19_poison_run", "poison", 2, 4), workers=4, timeout=600)
    if not r.violation:
        raise vlib.ToolError("Session.tla: a panic under the session lock does not violate Deterministic (vacuous model)")
    chk.tlc(r, "Session[panic under the lock: violation expected]")


# Jobs that fail hard: alone, each of them ends in a panic of the compiler (a macro-stage primitive fed malformed input,
# an unsupported shape in code generation).  That is the job's own result; next to other threads it must be the same
# panic, and nobody else's result may change - during the faulty job or at any time after it.
FAULTS = {
    "fault:str_to_number": '#stage(macro)\nfn broken(){\n  str_to_number("12x") |> lift_f\n}\n#stage(main)\nfn dsp(){\n  broken!()\n}\n',
    "fault:str_char_at": '#stage(macro)\nfn broken(){\n  str_char_at("ab", 7) |> str_to_number |> lift_f\n}\n#stage(main)\nfn dsp(){\n  broken!()\n}\n',
    "fault:lambda2_applied": "fn dsp(){ (|a, b| a * b)(2, 3) }\n",
}
GOOD_MACRO = {   # well-formed uses of the same primitives
    f"macro_str{k}": f'#stage(macro)\nfn konst(){{\n  str_to_number("{k}.25") + str_length("abc") |> lift_f\n}}\n#stage(main)\nfn dsp(){{\n  konst!() + 0.5\n}}\n'
    for k in (1, 2)}


def _desugar_job(seed, n=16):
    """a staged program whose quoted-stage let destructures n sibling nested tuples (every sub-pattern draws a fresh
    temporary name from the translator's counter), twice, with a trivial macro call"""
    pats = ", ".join(f"(a{i}, b{i})" for i in range(n))
    vals = ", ".join(f"({(i * 7 + seed) % 10}, {(i * 3 + seed * 2) % 10})" for i in range(n))
    total = " + ".join(f"a{i} * {i + 1} + b{i} * {100 + i}" for i in range(n))
    return (f"#stage(macro)\nfn one(){{\n  `(1.0)\n}}\n#stage(main)\nfn dsp(){{\n  let ({pats}) = ({vals})\n"
            f"  let ({pats.replace('a', 'c').replace('b', 'd')}) = ({vals})\n  {total} + c3 * 1000 + d{n - 1} * 5000 + one!()\n}}\n")


def _tyvar_job(seed, n=10):
    """many let-polymorphic definitions instantiated at several types (fresh type variables)"""
    defs = "\n".join(f"  let id{i} = |x| x\n  let pr{i} = |x, y| (y, x)" for i in range(n))
    uses = " + ".join(f"id{i}({i + seed}) + (pr{i}({i}, {seed})).0 + (id{i}((1, {i}))).1" for i in range(n))
    return f"fn dsp(){{\n{defs}\n  {uses}\n}}\n"


# Jobs that draw many names / numbers from the counters the compiler keeps per process or per thread (fresh temporaries
# of the staging translation, type variables): whatever another thread does in between, the result is the solo result
COUNTERS = {f"counter:desugar{k}": _desugar_job(k) for k in (1, 2, 3)}
COUNTERS.update({f"counter:tyvars{k}": _tyvar_job(k) for k in (1, 2)})
COUNTER_ROUNDS = {"quick": 120, "thorough": 1200}
CONFIRM_ROUNDS = 40


def make_req(name, src, path, rid):
    r = {"id": rid, "src": src, "n": NSAMPLES, "what": ["bytecode", "wasm"], "sched": True, "backends": ["vm", "wasm"]}
    if path:
        r["path"] = path
    return r


def run(tier):
    chk = vlib.Check("C19", "model_checking", tier)
    rng = random.Random(vlib.seed())
    vlib.build_harness()
    model(chk, tier)
    srcs = corpus(chk, tier)
    # solo observations, each in its own fresh process
    solo = vlib.run_harness("compile", [make_req(n, s, p, f"solo:{n}") for n, s, p in srcs], timeout_per_req=60, chunk=1)
    events = []
    usable = []
    for (name, src, path), (req, out, crash) in zip(srcs, solo):
        if crash or out is None:
            continue                    # a source that kills the process alone is C03's matter
        events.append({"src": name, "who": "solo", "obs": observation(out)})
        usable.append((name, src, path))
    chk.count("sources_that_kill_the_process_alone(C03)", len(srcs) - len(usable))
    faults = {n: (s_, p_) for n, s_, p_ in usable if n in FAULTS}
    chk.cov["fault_jobs"] = sorted(faults)
    # rounds
    rounds = []
    for r in range(ROUNDS[tier]):
        k = rng.choice(KS[tier])
        mode = rng.choice(["distinct", "identical", "mixed"] + (["with_fault"] if faults else []))
        if mode == "with_fault":
            fn_ = rng.choice(sorted(faults))
            picks = [rng.choice(usable) for _ in range(k - 1)]
            picks.insert(rng.randrange(k), (fn_, faults[fn_][0], None))
            if rng.random() < 0.5:     # the same faulty job on two threads at once
                picks[rng.randrange(k)] = (fn_, faults[fn_][0], None)
        elif mode == "identical":
            picks = [rng.choice(usable)] * k
        elif mode == "distinct":
            picks = [usable[i % len(usable)] for i in rng.sample(range(len(usable)), min(k, len(usable)))]
        else:
            picks = [rng.choice(usable) for _ in range(k)]
        rounds.append({"id": f"round{r}", "perturb": rng.randrange(1, 1 << 30) if r % 3 else 0, "log": r < LOGGED[tier],
                       "jobs": [make_req(n, s, p, f"round{r}:t{i + 1}:{n}") for i, (n, s, p) in enumerate(picks)],
                       "_names": [n for n, _, _ in picks], "_mode": mode})
    # rounds in which every thread is a consumer of the compiler's counters (8 threads, the same job on the even
    # threads, variants on the odd ones)
    cnt = [(n, s_, p_) for n, s_, p_ in usable if n in COUNTERS]
    for r in range(COUNTER_ROUNDS[tier] if cnt else 0):
        picks = [cnt[0] if i % 2 == 0 else cnt[(r + i) % len(cnt)] for i in range(8)]
        rid = f"round{ROUNDS[tier] + r}"
        rounds.append({"id": rid, "perturb": rng.randrange(1, 1 << 30) if r % 2 else 0, "log": False,
                       "jobs": [make_req(n, s, p, f"{rid}:t{i + 1}:{n}") for i, (n, s, p) in enumerate(picks)],
                       "_names": [n for n, _, _ in picks], "_mode": "counters"})
    # logged rounds come first in their process (chunk boundaries), so the recorded history starts at an early interner
    nchunks = max(LOGGED[tier], 8)
    per = (len(rounds) + nchunks - 1) // nchunks
    order = []
    logged = [r for r in rounds if r["log"]]
    rest = [r for r in rounds if not r["log"]]
    for c in range(nchunks):
        part = ([logged[c]] if c < len(logged) else []) + rest[c * (per - 1):(c + 1) * (per - 1)]
        order.append(part)
    flat = [r for part in order for r in part]
    leftover = [r for r in rounds if r not in flat]
    if leftover:
        order.append(leftover)
    res = []
    from concurrent.futures import ThreadPoolExecutor
    with ThreadPoolExecutor(max_workers=4) as ex:
        for part_res in ex.map(lambda part: vlib.run_harness(
                "threads", [{k: v for k, v in r.items() if not k.startswith("_")} for r in part],
                timeout_per_req=240, jobs=1, chunk=max(1, len(part))), [p for p in order if p]):
            res.extend(part_res)
    byid = {r["id"]: r for r in rounds}
    traces = []
    env_reported = []
    srcof = {n: (s, p) for n, s, p in usable}
    nthreads = 0
    for req, out, crash in res:
        rd = byid[req["id"]]
        case = {"jobs": [{"name": n, "src": srcof[n][0], "path": srcof[n][1]} for n in rd["_names"]], "perturb": rd["perturb"],
                "mode": rd["_mode"]}
        key = vlib.canon_key([rd["_names"], rd["perturb"]])
        if crash or out is None:
            what = "did not return (deadlock or hang)" if crash and crash.get("timeout") else f"killed the process: {crash}"
            chk.violation(f"{len(rd['_names'])} concurrent compilations {what}: jobs {rd['_names']} ({rd['_mode']})", case, key=key)
            continue
        if out.get("env_after") is not None and not env_reported:
            env_reported.append(req["id"])
            chk.violation("the process environment variable MIMIUM_CURRENT_MACRO_FILE is still set after all concurrent compilations "
                          f"have finished (round {req['id']}: left at {os.path.relpath(out['env_after'], vlib.REPO)}): the save/restore "
                          "guard around the macro stage (MacroFileEnvGuard) is not safe when two compilations overlap - one restores "
                          "the value the other published, so a plugin resolving relative paths reads another compilation's file",
                          case, key="macro_file_env_guard")
        for name, t in zip(rd["_names"], out["threads"]):
            nthreads += 1
            if t.get("thread_panic") is not None:
                chk.violation(f"a thread panicked while compiling {name} next to {rd['_names']}: {t['thread_panic']} @ {t.get('loc')}",
                              case, key=key)
                continue
            events.append({"src": name, "who": str(t.get("id")), "obs": observation(t)})
        if rd["log"]:
            traces.append({"id": req["id"], "events": out["events"]})
            chk.count("interner_events_validated", len(out["events"]))
    fails = validate(chk, events, "c19")
    # An observation that differs from the solo one is confirmed before it is reported: the round it came from is run
    # again CONFIRM_ROUNDS times (same jobs, fresh seeds of the yields) and the difference must show again.  A race in
    # the compiler shows again within a few hundred jobs (a seeded one was seen in 2 of 320); a difference that never
    # shows again is counted in the evidence as unconfirmed and is not the property's verdict.
    confirmed = []
    solo_ev = {e["src"]: e for e in events if e["who"] == "solo"}
    for f in fails:
        rid = str(f["who"]).split(":")[0]
        rd = byid.get(rid)
        if rd is None:
            confirmed.append(f)
            continue
        again = [{"id": f"{rid}c{k}", "perturb": rng.randrange(1, 1 << 30) if k % 2 else rd["perturb"], "log": False,
                  "jobs": [dict(j, id=j["id"].replace(rid + ":", f"{rid}c{k}:", 1)) for j in rd["jobs"]]} for k in range(CONFIRM_ROUNDS)]
        ev2 = [solo_ev[f["src"]]]
        for req2, out2, crash2 in vlib.run_harness("threads", again, timeout_per_req=240, jobs=4, chunk=10):
            if crash2 or out2 is None:
                ev2 = None
                break
            for name2, t2 in zip(rd["_names"], out2["threads"]):
                if name2 == f["src"] and t2.get("thread_panic") is None:
                    ev2.append({"src": name2, "who": str(t2.get("id")), "obs": observation(t2)})
        if ev2 is None or validate(chk, ev2, "c19confirm"):
            confirmed.append(f)
        else:
            chk.count("unconfirmed_differences_from_solo")
            vlib.log(f"[C19] note: {f['src']} differed from its solo observation once in round {rid} ({sorted(f['differs'])}) and not "
                     f"again in {CONFIRM_ROUNDS} repetitions of that round: not reported")
    for f in confirmed:
        src, path = srcof[f["src"]]
        chk.violation(f"compiled next to other threads, {f['src']} gave different {sorted(f['differs'])} than alone (event {f['who']})\n"
                      f"{src[:1000]}", {"src": src, "name": f["src"], "path": path, "who": f["who"]}, key=vlib.canon_key([f["src"], "contaminated"]))
    # interner histories
    if traces:
        os.makedirs(vlib.WORK, exist_ok=True)
        path = os.path.join(vlib.WORK, "session_trace.ndjson")
        with open(path, "w") as f:
            for t in traces:
                f.write(json.dumps(t) + "\n")
        try:
            r = vlib.run_tlc("SessionTrace", workers=1, timeout=3000, env={"TRACE": path}, tags=("FAIL", "CONSUMED"),
                             deque=True, xss=True, heap="6g")
        finally:
            os.unlink(path)
        if r.violation or not r.tagged["CONSUMED"] or r.tagged["CONSUMED"][0]["n"] != len(traces):
            raise vlib.ToolError(f"SessionTrace did not consume the whole trace: {r.violation}\n" + r.stdout[-1500:])
        chk.tlc(r, "SessionTrace")
        chk.count("traces_validated_against_impl", len(traces))
        for f in r.tagged["FAIL"]:
            rd = byid[f["id"]]
            chk.violation(f"the recorded interner history of {f['id']} is not a history of a sequential interner: {f['what']} "
                          f"(event {f['at']}: {f['ev']})", {"jobs": rd["_names"], "event": f["ev"]},
                          key=vlib.canon_key([rd["_names"], "interner"]))
    chk.cov["rounds"] = len(rounds)
    chk.cov["thread_compilations"] = nthreads
    chk.cov["sources"] = len(usable)
    chk.cov["threads_per_round"] = KS[tier]
    chk.cov["evaluations"] = nthreads
    chk.cov["distinct_nontrivial"] = len({tuple(r["_names"]) for r in rounds})
    chk.cov["rule"] = ("seeded rounds of K concurrent compile+run jobs (distinct / identical / mixed sources) with seeded yields before "
                       "lock acquisitions; non-trivial = distinct job tuple")
    chk.add_sample({"round": rounds[0]["_names"], "mode": rounds[0]["_mode"]})
    chk.assumptions += ["real schedules are perturbed, not enumerated: only the model is exhaustive over interleavings",
                        "a race that changes no observable (listing, bytes, layout, samples, diagnostics, interner history) is invisible"]
    return chk.finish()


def replay(path):
    case = json.load(open(path))["case"]
    if "jobs" in case and case["jobs"] and isinstance(case["jobs"][0], dict):
        jobs = [make_req(j["name"], j["src"], j.get("path"), f"t{i + 1}:{j['name']}") for i, j in enumerate(case["jobs"])]
        out = vlib.run_harness("threads", [{"id": "replay", "jobs": jobs, "perturb": case.get("perturb", 0)}], timeout_per_req=240)[0]
        for t in (out[1] or {}).get("threads", []):
            print(json.dumps(observation(t)) if "thread_panic" not in t else t)
        if out[2]:
            print(out[2])
    else:
        print(json.dumps(case)[:2000])
    return 0

"""C09 — staged (macro) code means the same as the code it generates.

spec -> impl: Staging.tla (over Lang/LangGen) places every generated expression e
of the token budget in every staging context (identity $(`{e}), nested quotes,
code bound by a macro-stage let and spliced twice, f!(..) and $(f(..)), a macro
function passed as a value, code-building recursion, lifted macro arithmetic,
templates that bind names around the splice), computes the expansion with its
own hygienic expander and the expected samples with Lang.  TLC also checks the
laws on the specification (quote-then-splice is the identity, f!(a) = $(f(a))).
Replay: the staged program and the printed expansion run on both back ends;
every run must give the expected samples, and Lockstep.tla validates staged
against expanded sample by sample.
Beyond the integer fragment: a table of further expression forms (arrays,
records, match, pipes, ...) and of macro-stage float arithmetic passed through
lift_f is compared staged-vs-hand-expansion with Lockstep.tla, bit for bit."""
import json
import os

import langpipe
import printer
import vlib

CONTEXTS = ["id", "nest", "letq", "twice", "mcall", "scall", "hof", "rec", "lift", "bind", "lam", "pair", "selneg", "selzero", "selpos"]
JOBS = {
    "quick": [
        ("f3", {"Template": '"f"', "Budget": 3}),
        ("dsp2in", {"Template": '"dsp"', "UseInput": "TRUE", "Budget": 2}),
    ],
    "thorough": [
        ("f4", {"Template": '"f"', "Budget": 4, "Lits": "{1}", "Ops": '{"+", "*"}'}),
        ("dsp3in", {"Template": '"dsp"', "UseInput": "TRUE", "Budget": 3}),
        ("ifstate4", {"Template": '"f"', "Budget": 4, "Lits": "{1}", "Ops": '{"+"}',
                      "Helpers": '{"counter", "lag", "pacc"}',
                      "Prods": '{"now", "if", "mem", "delay", "ifp", "proj", "tup"}'}),
    ],
}
LAWS = ("QuoteSpliceIdentity", "MacroCallIsSplice", "HigherOrderIsDirect")

# forms beyond Lang: (name, definitions, expression); the expression is placed in f(x)
FORMS = [
    ("float_lit", "", "x * 0.1 + 0.0025"),
    ("samplerate", "", "samplerate / 1000 + x"),
    ("neg", "", "-x + (-(x * 2))"),
    ("ops", "", "(x ^ 2) / 3 % 5 - (x >= 1) + (x != 2) * (x == 1) + (x && 1) + (x || 0)"),
    ("pipe", "fn sq(y){ y * y }", "x |> sq |> sq"),
    ("lambda2", "", "(|a, b| a * b + x)(x, 3)"),
    ("lambda_typed", "", "(|a:float| a + 1)(x)"),
    ("let_tuple_nested", "", "{ let (a, (b, c)) = (x, (2, 3))\n a + b * c }"),
    ("let_tuple_siblings", "", "{ let ((a, b), (c, d)) = ((x, 2), (3, x + 4))\n a * 1000 + b * 100 + c * 10 + d }"),
    ("let_tuple_placeholders", "", "{ let ((_, a), (_, b)) = ((1, x), (2, x + 5))\n a * 10 + b }"),
    ("let_tuple_placeholder_deep", "", "{ let (_, (_, (_, c))) = (1, (2, (3, x)))\n c + 1 }"),
    ("letrec", "", "{ letrec fact = |n| if (n > 0) n * fact(n - 1) else 1\n fact(3) + x }"),
    ("if_no_else", "", "{ let z = if (x > 0) 5\n x }"),
    ("seq_assign", "", "{ let a = 1\n a = a + x\n a * 2 }"),
    ("tuple_proj", "", "(x, x + 1, 7).1"),
    ("array", "", "[x, 2, 3][1] + [x, 5][0]"),
    ("array_index_now", "", "[10, 20, 30][now % 3]"),
    ("record", "", "{ let r = {a = x, b = 2}\n r.a + r.b }"),
    ("record_update", "", "{ let r = {a = x, b = 2}\n let s = {r <- a = 5}\n s.a + s.b + r.a }"),
    ("stateful_self", "", "self * 0.5 + x"),
    ("mem_delay", "", "mem(x) + delay(4, x + now, 2)"),
    ("default_param", "fn dflt(a, b = 3){ a * b }", "dflt({a = x})"),
    ("call3", "fn add3(a, b, c){ a + b * c }", "add3(x, 2, now)"),
    ("call0", "fn seven(){ 7 }", "seven() + x"),
    ("string_probe", "", "{ let s = \"abc\"\n x }"),
    ("paren_block", "", "({ (x) })"),
    # block structure of quoted code: a let inside a nested block ends with that block, wherever in the block it stands
    ("block_let_shadow", "", "{ let a = x + 1\n let r = { let a = 30\n a }\n r * 100 + a }"),
    ("block_stmt_then_let_shadow", "", "{ let a = x + 1\n let r = { a * 2\n let a = 30\n a }\n r * 100 + a }"),
    ("block_assign_then_let_shadow", "", "{ let a = x\n let r = { (a = a + 1)\n let a = 30\n a }\n r * 100 + a }"),
    ("block_two_levels_shadow", "", "{ let a = x\n let r = { a + 0\n { a + 1\n let a = 5\n a } + a }\n r * 10 + a }"),
    ("if_arm_let_shadow", "", "{ let a = x\n let r = if (a > 0) { a + 0\n let a = 5\n a } else { 0 }\n r * 10 + a }"),
    ("lambda_body_let_shadow", "", "{ let a = x\n let g = |y| { y + 0\n let a = 7\n a + y }\n g(1) * 10 + a }"),
    ("block_stmt_then_letrec_shadow", "", "{ let a = x\n let r = { a + 0\n letrec a = |n| if (n > 0) n + a(n - 1) else 0\n a(3) }\n r * 10 + a }"),
    ("block_stmt_then_tuple_let_shadow", "", "{ let a = x\n let r = { a + 0\n let (a, b) = (8, 9)\n a + b }\n r * 10 + a }"),
]
# macro-stage float arithmetic passed through lift_f
LIFTS = ["1 / 3", "0.1 + 0.2", "2 ^ 0.5", "1 / (2 ^ 1030)", "0 * (0 - 1)", "2 ^ 1000 * 10", "123456789.123456789", "2 ^ 1000 * 2 ^ 1000",
         "0.1 * 3", "4 % 3 / 7", "sin(1)", "sqrt(2) * sqrt(2)", "1 / 3 * 3", "2 ^ 60 + 1", "0.0000001 / 3", "0.000001"]
# (integer match inside a quote is a pinned finding in all three contexts: findings/C09/match_in_quote_*.json)
FORM_CTX = [("id", "$(`{{ {e} }})", ""), ("wrap", "wrap!(`{{ {e} }})", "(({e}) * 2 + 1)"),
            ("twice", "twice!(`{{ {e} }})", "(({e}) * 3 - ({e}))")]
FORM_MACROS = "#stage(macro)\nfn wrap(c){ `{ $c * 2 + 1 } }\nfn twice(c){ let q = c\n `{ $q * 3 - $q } }\n#stage(main)\n"


def form_programs():
    out = []
    for name, defs, e in FORMS:
        for cname, tmpl, exp in FORM_CTX:
            staged = f"{FORM_MACROS}{defs}\nfn f(x){{ {tmpl.format(e=e)} }}\nfn dsp(){{ f(1) + f(now) * 100 }}\n"
            expanded = f"{defs}\nfn f(x){{ {(exp or '{e}').format(e=e)} }}\nfn dsp(){{ f(1) + f(now) * 100 }}\n"
            out.append((f"form:{name}:{cname}", staged, expanded))
    for i, m in enumerate(["0 - 1", "0 - 0.5", "sqrt(0 - 1)", "0", "0.5", "2"]):
        staged = (f"#stage(main)\nfn up(s){{ self + s }}\n#stage(macro)\nfn sel(v){{ `{{ if ($(v |> lift_f)) {{ up(1.0) }} else {{ up(10.0) }} }} }}\n"
                  f"#stage(main)\nfn dsp(){{ sel!({m}) }}\n")
        expanded = f"fn up(s){{ self + s }}\nfn dsp(){{ if (({m})) {{ up(1.0) }} else {{ up(10.0) }} }}\n"
        out.append((f"liftcond:{i}", staged, expanded))
    for i, m in enumerate(LIFTS):
        staged = f"fn dsp(){{ $(lift_f({m})) }}\n"
        expanded = f"fn dsp(){{ ({m}) }}\n"
        out.append((f"lift:{i}", staged, expanded))
        staged = f"#stage(macro)\nfn k(){{ {m} }}\n#stage(main)\nfn dsp(){{ now * $(k() |> lift_f) }}\n"
        expanded = f"fn dsp(){{ now * ({m}) }}\n"
        out.append((f"liftfn:{i}", staged, expanded))
    return out


def pinned_cases():
    d = os.path.join(vlib.VERIF, "findings", "C09")
    out = []
    if os.path.isdir(d):
        for fn in sorted(os.listdir(d)):
            if fn.endswith(".json"):
                out.append(json.load(open(os.path.join(d, fn))))
    return out


def run(tier):
    chk = vlib.Check("C09", "model_checking", tier)
    vlib.build_harness()
    records, meta = [], {}
    nprog = 0
    nontrivial = set()
    ctxset = "{" + ", ".join(f'"{c}"' for c in CONTEXTS) + "}"
    for label, consts in JOBS[tier]:
        reps = langpipe.generate(chk, label, dict(consts, Contexts=ctxset, Mode='"hygienic"'), timeout=3000,
                                 module="Staging", invariants=("EmitStaged",) + LAWS)
        live = [(i, r) for i, r in enumerate(reps) if not r["oom"]]
        chk.count("out_of_model_programs", len(reps) - len(live))
        reqs = []
        for i, r in live:
            for which in ("staged", "expanded"):
                q = langpipe.to_request(f"{i}:{which}", {"prog": r[which], "inputs": r["inputs"], "expect": r["expect"]})
                reqs.append(q)
        res = {req["id"]: (req, out, crash) for req, out, crash in vlib.run_harness("run", reqs, timeout_per_req=10)}
        for i, rep in live:
            sreq, sout, scrash = res[f"{i}:staged"]
            ereq, eout, ecrash = res[f"{i}:expanded"]
            nprog += 1
            key = vlib.canon_key(sreq["src"])
            case = {"src": sreq["src"], "expanded": ereq["src"], "inputs": rep["inputs"], "expect": rep["expect"],
                    "ctx": rep["ctx"], "job": label}
            if ecrash or eout is None:
                chk.count("expansion_kills_the_process(C03)")
                continue
            if scrash or sout is None:
                chk.violation(f"runtime process died on a staged program: {scrash}\n{sreq['src']}", case, key=key)
                continue
            # where the expansion itself does not behave as Lang says (C02's matter, reported there) the staged
            # program is compared with the expansion only
            off = [be for be in ("vm", "wasm") if langpipe.compare_outputs(rep, eout[be])]
            if off:
                chk.count("expansion_not_as_specified(C02):" + rep["ctx"])
                for be in ("vm", "wasm"):
                    rid = f"{label}:{i}:{be}"
                    records.append({"id": rid, "a": langpipe.side(sout[be], with_words=False),
                                    "b": langpipe.side(eout[be], with_words=False), "cmpwords": False})
                    meta[rid] = (None, dict(case, backend=be), key)
                continue
            bad = False
            for be in ("vm", "wasm"):
                d = langpipe.compare_outputs(rep, sout[be])
                if d:
                    chk.violation(f"{be}: staged program [{rep['ctx']}] differs from its expansion: {d}\n{sreq['src']}\n"
                                  f"-- expansion --\n{ereq['src']}", dict(case, backend=be), key=key)
                    bad = True
                    break
            if bad:
                continue
            rid = f"{label}:{i}"
            records.append({"id": rid, "a": langpipe.side(sout["vm"], with_words=False),
                            "b": langpipe.side(eout["vm"], with_words=False), "cmpwords": False})
            meta[rid] = (None, case, key)
            if any(rep["expect"][0] != row for row in rep["expect"]):
                nontrivial.add(key)
        if reps:
            s = reps[len(reps) // 2]
            chk.add_sample({"job": label, "ctx": s["ctx"], "staged": printer.program(s["staged"]),
                            "expanded": printer.program(s["expanded"]), "expect": s["expect"]})
    chk.cov["staged_programs_replayed"] = nprog

    # ---- forms beyond the fragment and lifted floats: staged vs hand expansion, bit for bit
    forms = form_programs()
    pins = pinned_cases()
    for i, c in enumerate(pins):
        forms.append((f"pin:{i}", c["src"], c["expanded"]))
    reqs = []
    for name, staged, expanded in forms:
        reqs.append({"id": f"{name}|s", "src": staged, "n": 8, "backends": ["vm", "wasm"], "sched": True})
        reqs.append({"id": f"{name}|e", "src": expanded, "n": 8, "backends": ["vm", "wasm"], "sched": True})
    res = {req["id"]: (req, out, crash) for req, out, crash in vlib.run_harness("run", reqs, timeout_per_req=20)}
    for name, staged, expanded in forms:
        _, sout, scrash = res[f"{name}|s"]
        _, eout, ecrash = res[f"{name}|e"]
        pin = pins[int(name[4:])] if name.startswith("pin:") else None
        key = pin["key"] if pin else vlib.canon_key(staged)
        case = {"src": staged, "expanded": expanded, "name": name}
        nprog += 1
        if ecrash or eout is None or eout["vm"].get("status") != "ok":
            # the plain program itself is not accepted / does not run: not a statement about staging (C03 / C04)
            chk.count("table_entries_whose_plain_form_does_not_run")
            chk.cov.setdefault("plain_forms_not_running", []).append(name)
            continue
        if scrash or sout is None:
            chk.violation(pin["what"] if pin else f"runtime process died on staged form {name}: {scrash}", case, key=key)
            continue
        for be in ("vm", "wasm"):
            if eout[be].get("status") != "ok":
                continue            # the expansion itself is not accepted by this back end: nothing to compare with
            rid = f"{name}|{be}"
            a, b = langpipe.side(sout[be], with_words=False), langpipe.side(eout[be], with_words=False)
            if a["status"] in ("reject", "error", "nodsp"):
                a["status"] = "refused: " + json.dumps(sout[be].get("diags", ""))[:200]
            records.append({"id": rid, "a": a, "b": b, "cmpwords": False})
            meta[rid] = (pin["what"] if pin else None, dict(case, backend=be), key)
        nontrivial.add(key)
    chk.cov["forms"] = len(FORMS) * len(FORM_CTX)
    chk.cov["lifted_float_expressions"] = len(LIFTS) * 2

    fails = langpipe.validate_lockstep(chk, records, "c09")
    for rid, f in fails.items():
        what, case, key = meta[rid]
        if not rid.startswith("pin:"):
            what = (f"staged program and its expansion differ ({f['what']} at step {f['at']}) [{rid}]\n{case['src']}\n"
                    f"-- expansion --\n{case['expanded']}")
        chk.violation(what, case, key=key)
    chk.cov["evaluations"] = nprog
    chk.cov["distinct_nontrivial"] = len(nontrivial)
    chk.cov["contexts"] = CONTEXTS
    chk.cov["rule"] = ("every well-typed body up to the token budget (TLC, exhaustive per job) x every staging context, + a table of "
                       "further expression forms x 3 contexts and lifted float expressions; non-trivial = distinct staged source "
                       "whose expected output stream is not constant (table entries count once each)")
    chk.cov["exhaustive"] = True
    chk.assumptions += ["names in generated expressions never coincide with names bound by the macro templates (that is C10)",
                        "integer fragment for the Lang-based part; the table part compares staged against hand expansion only"]
    return chk.finish()


def replay(path):
    case = json.load(open(path))["case"]
    reqs = [{"id": "staged", "src": case["src"], "n": len(case.get("expect", [])) or 8, "backends": ["vm", "wasm"], "sched": True},
            {"id": "expanded", "src": case["expanded"], "n": len(case.get("expect", [])) or 8, "backends": ["vm", "wasm"], "sched": True}]
    if case.get("inputs") and "dsp(x)" in case["src"]:
        for r in reqs:
            r["inputs"] = [[v] for v in case["inputs"]]
    print(case["src"], "\n-- expansion --\n", case["expanded"])
    print("expected:", case.get("expect"))
    for req, out, crash in vlib.run_harness("run", reqs):
        for be in ("vm", "wasm"):
            b = (out or {}).get(be, {})
            print(req["id"], be, b.get("status"), b.get("out"), b.get("msg", ""), json.dumps(b.get("diags", ""))[:300])
    return 0

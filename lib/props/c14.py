"""C14 — the formatter never changes a program, loses no comment, and is idempotent.

FormatterTrace.tla is the contract: a Format(text, width, indent) event on a
syntactically valid text may only be the step "the output parses, to the same
syntax tree (without spans), with the same comments in the same order, and
formatting it again returns it unchanged".  The projections are computed by the
harness with the real tokenizer and parser (the oracle the property names).
Texts: every LangGen program of the budget (TLC, exhaustive) printed in three
layouts (plain, redundant parentheses, comments and line breaks inside
brackets); a table of the syntax forms outside Lang (annotations, defaults,
records, arrays, match, modules, stages, pipes, ...); shipped sources.  Each at
widths {1, 8, 20, 40, 80, 200} and indent sizes {2, 4}."""
import glob
import json
import os
from concurrent.futures import ThreadPoolExecutor

import langpipe
import printer
import vlib

WIDTHS = {"quick": [8, 20, 40, 80], "thorough": [1, 8, 20, 40, 80, 200]}
INDENTS = [2, 4]
JOBS = {"quick": [("f3", {"Template": '"f"', "Budget": 3})],
        "thorough": [("f4", {"Template": '"f"', "Budget": 4, "Lits": "{1}", "Ops": '{"+", "*"}'}),
                     ("dsp3in", {"Template": '"dsp"', "UseInput": "TRUE", "Budget": 3})]}

FORMS = [
    ("fn_annot", "fn f(x:float, y:float)->float{ x + y }\nfn dsp(){ f(1.0, 2.0) }\n"),
    ("fn_default", "fn f(x, y = 2.0){ x * y }\nfn dsp(){ f({x = 1.0}) }\n"),
    ("fn_annot_default", "fn f(x:float = 1.0, y:float = 2.0){ x * y }\nfn dsp(){ f({..}) }\n"),
    ("fn_fntype_param", "fn hof(g:(float)->float, y){ g(y) }\nfn dsp(){ hof(|x| x * 2.0, 1.0) }\n"),
    ("lambda0", "fn dsp(){ let g = | | 3.0\n g() }\n"),
    ("lambda_annot", "fn dsp(){ let g = |a:float, b:float|->float a + b\n g(1.0, 2.0) }\n"),
    ("let_annot", "fn dsp(){ let a:float = 1.0\n let (b, c) = (2.0, 3.0)\n a + b + c }\n"),
    ("let_nested_tuple", "fn dsp(){ let (a, (b, c)) = (1.0, (2.0, 3.0))\n a + b * c }\n"),
    ("letrec", "fn dsp(){ letrec fact = |n| if (n > 0.0) n * fact(n - 1.0) else 1.0\n fact(3.0) }\n"),
    ("if_else_if", "fn dsp(){ if (now > 2.0) 1.0 else if (now > 1.0) 2.0 else 3.0 }\n"),
    ("if_block", "fn dsp(){ let r = if (now > 2.0) { 1.0 } else { 0.0 }\n r }\n"),
    ("if_noparen", "fn dsp(){ if now > 2.0 { 1.0 } else { 0.0 } }\n"),
    ("pipe", "fn sq(y){ y * y }\nfn dsp(){ 2.0 |> sq |> sq }\n"),
    ("ops", "fn dsp(){ (now ^ 2.0) / 3.0 % 5.0 - (now >= 1.0) + (now != 2.0) * (now == 1.0) + (now && 1.0) + (now || 0.0) }\n"),
    ("unary", "fn dsp(){ -now + (-(now * 2.0)) + !now }\n"),
    ("tuple_proj", "fn dsp(){ (1.0, 2.0, 3.0).1 }\n"),
    ("array", "fn dsp(){ let a = [1.0, 2.0, 3.0]\n a[1] + a[0] }\n"),
    ("record", "fn dsp(){ let r = {a = 1.0, b = 2.0}\n r.a + r.b }\n"),
    ("record_update", "fn dsp(){ let r = {a = 1.0, b = 2.0}\n let s = {r <- a = 5.0}\n s.a + s.b }\n"),
    ("record_incomplete", "fn f(a, b = 2.0){ a + b }\nfn dsp(){ f({a = 1.0, ..}) }\n"),
    ("assign", "fn dsp(){ let a = 1.0\n a = a + 2.0\n a }\n"),
    ("self_mem_delay", "fn f(x){ self * 0.5 + mem(x) + delay(4, x, 2.0) }\nfn dsp(){ f(now) }\n"),
    ("global_let", "let g = 3.0\nfn dsp(){ g * 2.0 }\n"),
    ("string", "fn dsp(){ let s = \"abc def\"\n 1.0 }\n"),
    # tokens that span lines: a string literal with a line break at several indentation levels, a block comment over lines
    ("string_multiline_toplevel", "let s = \"ab\ncd\"\nfn dsp(){ 1.0 }\n"),
    ("string_multiline_in_block", "fn dsp(){\n  let s = \"ab\n cd\nef\"\n  1.0\n}\n"),
    ("string_multiline_nested", "fn dsp(){\n  let r = { let s = \"ab\n\ncd\"\n 2.0 }\n  r\n}\n"),
    ("string_multiline_argument", "fn f(s, x){ x }\nfn dsp(){\n  f(\"ab\ncd\", 1.0)\n}\n"),
    ("string_multiline_tuple", "fn dsp(){\n  let (a, b) = (\"x\ny\", 2.0)\n  b\n}\n"),
    ("block_comment_multiline_in_block", "fn dsp(){\n  /* one\n     two\n three */\n  1.0\n}\n"),
    ("match_int", "fn dsp(){ match (now > 1.0) { 0 => 10.0, 1 => 20.0, _ => 30.0 } }\n"),
    ("type_decl", "type Shape = Circle(float) | Square(float)\nfn dsp(){ 1.0 }\n"),
    ("type_alias", "type alias Pair = (float, float)\nfn dsp(){ 1.0 }\n"),
    ("module", "mod m { pub fn a(){ 1.0 } fn b(){ 2.0 } }\nfn dsp(){ m::a() }\n"),
    ("use1", "mod m { pub fn a(){ 1.0 } }\nuse m::a\nfn dsp(){ a() }\n"),
    ("use_multi", "mod m { pub fn a(){ 1.0 } pub fn b(){ 2.0 } }\nuse m::{a, b}\nfn dsp(){ a() + b() }\n"),
    ("use_wild", "mod m { pub fn a(){ 1.0 } }\nuse m::*\nfn dsp(){ a() }\n"),
    ("stage_macro", "#stage(macro)\nfn wrap(c){ `{ $c * 2.0 + 1.0 } }\n#stage(main)\nfn dsp(){ wrap!(`{ now }) }\n"),
    ("splice_quote", "fn dsp(){ $(`{ now + 1.0 }) + $(lift_f(2.0 * 3.0)) }\n"),
    ("at_schedule", "fn ping(){ 1.0 }\nfn dsp(){ 0.0 }\n"),
    ("line_comments", "// head\nfn dsp(){ // after brace\n  let a = 1.0 // trailing\n  // own line\n  a // last\n}\n// tail\n"),
    ("block_comments", "/* head */\nfn dsp(){ /* a */ let a = /* b */ 1.0 /* c */\n a /* d */ }\n"),
    ("comment_in_args", "fn f(x, y){ x + y }\nfn dsp(){ f( /* first */ 1.0, // second\n 2.0 ) }\n"),
    ("comment_before_close_brace", "fn f(x){\n  let y = x * 2.0\n  y\n/* end of f */ }\nfn dsp(){ f(1.0) }\n"),
    ("comment_before_open_brace", "fn dsp()\n/* body */ {\n  1.0\n}\n"),
    # a comment attached to the trailing comma of a list, with a postfix operator or another comment behind the list
    ("trailing_comma_comment_call_postfix", "fn f(a, b){ |x| x + a + b }\nfn dsp(){ f(1.0, 2.0, // c\n)(3.0) }\n"),
    ("trailing_comma_comment_tuple_proj", "fn dsp(){ (1.0, 2.0, // c\n).0 }\n"),
    ("trailing_comma_comment_array_index", "fn dsp(){ [1.0, 2.0, // c\n][0] }\n"),
    ("trailing_comma_two_comments", "fn f(a){ a }\nfn dsp(){ f(1.0, /* 1 */ ) /* 2 */\n}\n"),
    ("trailing_comma_comment_params", "fn f(a, b, // last\n){ a + b }\nfn dsp(){ f(1.0, 2.0) }\n"),
    ("trailing_comma_block_comment_postfix", "fn dsp(){ (1.0, 2.0, /* c */ ).0 }\n"),
    ("trailing_comma_plain_postfix", "fn dsp(){ (1.0, 2.0, ).0 }\n"),
    ("comment_after_close_paren_postfix", "fn dsp(){ (1.0, 2.0) /* c */ .0 }\n"),
    ("comment_before_lambda_comma", "fn dsp(){ let g = |a\n/* between */ , b| a + b\n g(1.0, 2.0) }\n"),
    ("comment_before_record_comma", "fn dsp(){ let r = {a = 1.0\n/* between */ , b = 2.0}\n r.a + r.b }\n"),
    ("comment_before_macro_comma", "#stage(macro)\nfn two(p, q){ `{ $p + $q } }\n#stage(main)\nfn dsp(){ two!(`1.0\n/* between */ , `2.0) }\n"),
    ("comment_line_start_before_token", "fn dsp(){\n  let a = 1.0\n/* lead */ a + 2.0\n}\n"),
    ("long_line", "fn dsp(){ 1.0 + 2.0 + 3.0 + 4.0 + 5.0 + 6.0 + 7.0 + 8.0 + 9.0 + 10.0 + 11.0 + 12.0 + 13.0 + 14.0 + 15.0 + 16.0 + 17.0 + 18.0 }\n"),
    ("long_call", "fn f(a, b, c, d, e, g){ a + b + c + d + e + g }\nfn dsp(){ f(1.0000001, 2.0000002, 3.0000003, 4.0000004, 5.0000005, 6.0000006) }\n"),
    ("semicolons", "let a = 1.0;\nfn dsp(){ a; a }\n"),
]


def shipped(tier):
    fs = sorted(glob.glob(os.path.join(vlib.REPO, "crates/lib/mimium-test/tests/mmm", "*.mmm")))
    if tier == "thorough":      # the larger sources take seconds each at narrow widths
        fs += sorted(glob.glob(os.path.join(vlib.REPO, "examples", "*.mmm")) + glob.glob(os.path.join(vlib.REPO, "lib", "*.mmm")))
    return fs


def validate(chk, records):
    step = 20000
    parts = [records[k:k + step] for k in range(0, len(records), step)]
    os.makedirs(vlib.WORK, exist_ok=True)

    def one(args):
        k, part = args
        path = os.path.join(vlib.WORK, f"fmt_{k}.ndjson")
        with open(path, "w") as f:
            for r in part:
                f.write(json.dumps(r) + "\n")
        try:
            r = vlib.run_tlc("FormatterTrace", workers=1, timeout=3000, env={"TRACE": path}, tags=("FAIL", "CONSUMED"),
                             deque=True, xss=True, heap="4g")
        finally:
            os.unlink(path)
        if r.violation or not r.tagged["CONSUMED"] or r.tagged["CONSUMED"][0]["n"] != len(part):
            raise vlib.ToolError(f"FormatterTrace did not consume the whole trace: {r.violation}\n" + r.stdout[-1500:])
        return k, r
    fails = []
    with ThreadPoolExecutor(max_workers=6) as ex:
        for k, r in ex.map(one, list(enumerate(parts))):
            chk.tlc(r, f"FormatterTrace[{k}]")
            chk.count("traces_validated_against_impl", len(parts[k]))
            fails += r.tagged["FAIL"]
    return fails


def run(tier):
    chk = vlib.Check("C14", "model_checking", tier)
    vlib.build_harness()
    texts = {}      # name -> (text, path)
    for label, consts in JOBS[tier]:
        reps = langpipe.generate(chk, "c14" + label, consts, timeout=3000)
        for i, r in enumerate(reps):
            if r["inputs"] and any(r["inputs"]) and i % 2:
                continue            # the same program with the second input stream
            printer.STYLE.update(parens=False, layout=False)
            texts[f"{label}:{i}:plain"] = (printer.program(r["prog"]), None)
            printer.STYLE.update(parens=True)
            texts[f"{label}:{i}:parens"] = (printer.program(r["prog"]), None)
            printer.STYLE.update(parens=False, layout=True)
            texts[f"{label}:{i}:layout"] = (printer.program(r["prog"]), None)
            printer.STYLE.update(layout=False)
    ngen = len(texts)
    for name, t in FORMS:
        texts[f"form:{name}"] = (t, None)
    for f in shipped(tier):
        texts["file:" + os.path.relpath(f, vlib.REPO)] = (open(f).read(), f)
    pins = {}
    d = os.path.join(vlib.VERIF, "findings", "C14")
    if os.path.isdir(d):
        for fn in sorted(os.listdir(d)):
            if fn.endswith(".json"):
                c = json.load(open(os.path.join(d, fn)))
                pins[c["key"]] = c
    widths = WIDTHS[tier]
    reqs = []
    for name, (t, path) in texts.items():
        gen = not (name.startswith("form:") or name.startswith("file:"))
        for w in (widths if not gen or tier == "thorough" else widths[1:3] + [80]):
            for ind in (INDENTS if (w in (20, 80) or tier == "thorough") else [4]):
                r = {"id": f"{name}@{w}/{ind}", "text": t, "width": w, "indent": ind}
                if path:
                    r["path"] = path
                reqs.append(r)
    res = vlib.run_harness("fmt", reqs, timeout_per_req=180, chunk=60)
    records = []
    invalid = set()
    bad = {}        # name -> list of (width/indent, what)
    for req, out, crash in res:
        name = req["id"].rsplit("@", 1)[0]
        if crash or out is None:
            bad.setdefault(name, []).append((req["id"].rsplit("@", 1)[1], f"the formatter killed the process ({crash})"))
            continue
        if out["status"] == "invalid_input":
            invalid.add(name)
            continue
        records.append({"id": req["id"], "width": out["width"], "indent": out["indent"], "status": out["status"],
                        "nerr_out": out.get("nerr_out", 0), "same_ast": out.get("same_ast", False),
                        "comments_in": out.get("comments_in", []), "comments_out": out.get("comments_out", []),
                        "text1": str(out.get("text1")), "text2": str(out.get("text2"))})
    for f in validate(chk, records):
        name, wi = f["id"].rsplit("@", 1)
        bad.setdefault(name, []).append((wi, f["what"]))
    for name, lst in sorted(bad.items()):
        t, path = texts[name]
        key = vlib.canon_key(t)
        kinds = sorted({w for _, w in lst})
        what = pins[key]["what"] if key in pins else \
            f"formatter on {name}: {'; '.join(kinds)} (at width/indent {', '.join(w for w, _ in lst[:8])}{' ...' if len(lst) > 8 else ''})"
        chk.violation(what, {"text": t, "path": path, "name": name, "cases": lst[:20]}, key=key)
    chk.cov["texts_generated"] = ngen
    chk.cov["texts_forms"] = len(FORMS)
    chk.cov["texts_shipped"] = len(texts) - ngen - len(FORMS)
    chk.cov["texts_not_syntactically_valid"] = len(invalid)
    chk.cov["format_events"] = len(records)
    chk.cov["widths"] = widths
    chk.cov["indents"] = INDENTS
    chk.cov["evaluations"] = len(records)
    chk.cov["distinct_nontrivial"] = len({t for t, _ in texts.values()}) - len(invalid)
    chk.cov["rule"] = ("every LangGen program of the budget (TLC, exhaustive) in three layouts + a table of syntax forms + shipped "
                       "sources, each at the listed widths and indent sizes; non-trivial = distinct syntactically valid text")
    chk.cov["exhaustive"] = True
    chk.add_sample({"text": texts[next(iter(texts))][0]})
    chk.assumptions += ["same syntax tree = equal Debug rendering of parse_to_expr's result with spans removed",
                        "comments are compared as the sequence of comment tokens (trailing white space trimmed)"]
    return chk.finish()


def replay(path):
    case = json.load(open(path))["case"]
    for wi, _ in (case.get("cases") or [("80/4", "")])[:3]:
        w, ind = wi.split("/")
        r = {"id": 0, "text": case["text"], "width": int(w), "indent": int(ind), "full": True}
        if case.get("path"):
            r["path"] = case["path"]
        out = vlib.run_harness("fmt", [r])[0][1]
        print(f"--- width {w} indent {ind}: " + json.dumps({k: v for k, v in out.items() if k not in ("ast0", "ast1", "out1", "out2")}))
        print(out.get("out1"))
    return 0

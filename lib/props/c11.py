"""C11 — scheduled tasks run exactly once at exactly their sample time.

Scheduler.tla models the two mechanisms (VM: channel + worker clock; WASM:
shared heap + trampoline check) action by action; TLC explores every task
configuration of the bound (sources: global scope, dsp at sample s, running
tasks that reschedule themselves; delays; periods) and checks on each mechanism
that every instance fires exactly once at its time before that sample's dsp,
that nothing else fires and that no in-the-future configuration is refused.
Every explored configuration is printed with the counter vector dsp must see at
every sample and replayed on the real VM and WASM runtimes."""
import json
import os

import vlib

BOUNDS = {
    "quick": {"NSamples": 8, "MaxTasks": 2, "Delays": "{1, 2, 4}", "Periods": "{0, 1, 3}", "DspAt": "{0, 2}"},
    "thorough": {"NSamples": 12, "MaxTasks": 2, "Delays": "{1, 2, 3, 5}", "Periods": "{0, 1, 2, 3}", "DspAt": "{0, 1, 3}"},
}


def cfg(name, be, consts, emit, bug="none", invs=("OnlyScheduledOnceOnTime", "NothingMissed", "NeverRefused")):
    path = os.path.join(vlib.TLA_DIR, name + ".cfg")
    with open(path, "w") as f:
        f.write(f"SPECIFICATION Spec\nCONSTANTS\n  Backend = \"{be}\"\n  Emit = {emit}\n  Bug = \"{bug}\"\n")
        for k, v in consts.items():
            f.write(f"  {k} = {v}\n")
        for i in invs:
            f.write(f"INVARIANT {i}\n")
        f.write("INVARIANT InvEmit\nCHECK_DEADLOCK FALSE\n")
    return name


def program(tasks, frac):
    """one global counter and one task function per definition; dsp reads the counters"""
    out = []
    for i, t in enumerate(tasks, 1):
        out.append(f"let c{i} = 0")
    for i, t in enumerate(tasks, 1):
        if t["period"] > 0:
            out.append(f"fn t{i}(){{\n  c{i} = c{i} + 1\n  t{i}@(now + {t['period']})\n}}")
        else:
            out.append(f"fn t{i}(){{\n  c{i} = c{i} + 1\n}}")
    for i, t in enumerate(tasks, 1):
        if t["src"] == "main":
            when = f"{t['delay']}.7" if frac and i % 2 == 1 else str(t["delay"])
            out.append(f"t{i}@{when}")
    body = []
    for i, t in enumerate(tasks, 1):
        if t["src"] == "dsp":
            d = f"{t['delay']}.7" if frac and i % 2 == 1 else str(t["delay"])
            body.append(f"  let s{i} = if (now == {t['at']}) {{\n    let _ = t{i}@(now + {d})\n    0\n  }} else {{ 0 }}")
    total = " + ".join(f"c{i}*{100 ** (i - 1)}" for i in range(1, len(tasks) + 1))
    out.append("fn dsp(){\n" + "\n".join(body) + ("\n" if body else "") + f"  {total}\n}}")
    return "\n".join(out) + "\n"


def program_local(tasks, frac, shared):
    """the tasks are closures bound inside a function that is called from global scope (let / letrec bindings, not global
    functions); `shared`: tasks with the same definition are one closure object scheduled several times - every
    scheduling is an instance of its own and runs (the counter of the first counts for all of them)"""
    out, first = [], {}
    for i, t in enumerate(tasks, 1):
        out.append(f"let c{i} = 0")
    out.append("fn setup(){")
    sched = []
    for i, t in enumerate(tasks, 1):
        key = (t["delay"], t["period"])
        j = first.get(key, i) if shared else i
        if j == i:
            first.setdefault(key, i)
            if t["period"] > 0:
                out.append(f"  letrec k{i} = | | {{\n    c{i} = c{i} + 1\n    k{i}@(now + {t['period']})\n  }}")
            else:
                out.append(f"  let k{i} = | | {{\n    c{i} = c{i} + 1\n  }}")
        # with `frac` the two schedulings fall on the same sample only after truncation (.2 and .7)
        when = f"{t['delay']}.{'7' if i % 2 == 1 else '2'}" if frac else str(t["delay"])
        sched.append(f"  k{j}@{when}")
    out += sched
    out.append("}")
    out.append("setup()")
    total = " + ".join(f"c{i}*{100 ** (i - 1)}" for i in range(1, len(tasks) + 1))
    out.append(f"fn dsp(){{\n  {total}\n}}")
    return "\n".join(out) + "\n"


def program_oneshots(tasks, frac):
    """all one-shot tasks of the configuration are ONE closure object that captures a parameter of the function it is
    made in, scheduled once per task at that task's time (several pending schedulings of one closure at different
    times: every scheduling fires, the closure stays usable until the last one has fired); periodic tasks keep their own
    letrec closure"""
    out = [f"let c{i} = 0" for i in range(1, len(tasks) + 1)]
    one = next(i for i, t in enumerate(tasks, 1) if t["period"] == 0)
    out.append("fn setup(inc){")
    out.append(f"  let shot = | | {{\n    c{one} = c{one} + inc\n  }}")
    sched = []
    for i, t in enumerate(tasks, 1):
        when = f"{t['delay']}.{'7' if i % 2 == 1 else '2'}" if frac else str(t["delay"])
        if t["period"] > 0:
            out.append(f"  letrec k{i} = | | {{\n    c{i} = c{i} + inc\n    k{i}@(now + {t['period']})\n  }}")
            sched.append(f"  k{i}@{when}")
        else:
            sched.append(f"  shot@{when}")
    out += sched
    out.append("}")
    out.append("setup(1)")
    total = " + ".join(f"c{i}*{100 ** (i - 1)}" for i in range(1, len(tasks) + 1))
    out.append(f"fn dsp(){{\n  {total}\n}}")
    return "\n".join(out) + "\n"


def expect_oneshots(tasks, outs):
    one = next(i for i, t in enumerate(tasks) if t["period"] == 0)
    rows = []
    for row in outs:
        merged = [0] * len(row)
        for i, c in enumerate(row):
            merged[one if tasks[i]["period"] == 0 else i] += c
        rows.append(sum(c * 100 ** i for i, c in enumerate(merged)))
    return rows


def expect_shared(tasks, outs):
    first, rows = {}, []
    owner = []
    for i, t in enumerate(tasks):
        owner.append(first.setdefault((t["delay"], t["period"]), i))
    for row in outs:
        merged = [0] * len(row)
        for i, c in enumerate(row):
            merged[owner[i]] += c
        rows.append(sum(c * 100 ** i for i, c in enumerate(merged)))
    return rows


def expect(outs):
    return [sum(c * 100 ** i for i, c in enumerate(row)) for row in outs]


def run(tier):
    chk = vlib.Check("C11", "model_checking", tier)
    vlib.build_harness()
    b = BOUNDS[tier]
    reps = {}
    for be in ("vm", "wasm"):
        r = vlib.run_tlc("MCScheduler", cfg(f"MCScheduler_{be}_run", be, b, "TRUE"), timeout=1200, workers=12)
        chk.tlc(r, f"Scheduler[{be}]")
        if r.violation:
            chk.violation(f"model: {r.violation} for the {be} mechanism", {"tlc": vlib.tlc_error_trace(r.stdout)},
                          key=f"model-{be}-" + r.violation.replace(" ", "_"))
        reps[be] = r.tagged["REPLAY"]
    # both mechanisms must predict the same counters for the same configuration
    by_cfg = {}
    for be in ("vm", "wasm"):
        for rep in reps[be]:
            by_cfg.setdefault(json.dumps(rep["cfg"], sort_keys=True), {})[be] = rep["outs"]
    for k, v in by_cfg.items():
        if v.get("vm") != v.get("wasm"):
            chk.violation(f"model: the VM and WASM mechanisms disagree on configuration {k}", {"cfg": json.loads(k), "outs": v},
                          key="model-disagree-" + vlib.canon_key(k))
    # self-test of the model (not vacuous): the strict-pop variant must violate NothingMissed
    if tier == "thorough":
        r = vlib.run_tlc("MCScheduler", cfg("MCScheduler_selftest_run", "vm", dict(b, MaxTasks=1), "FALSE", bug="pop_strict"),
                         timeout=600, workers=4)
        chk.cov["selftest_strict_pop_rejected"] = bool(r.violation)
        if not r.violation:
            raise vlib.ToolError("self-test: the pop_strict variant of Scheduler.tla was not rejected")
    # replay
    reqs, meta = [], []
    for k, v in by_cfg.items():
        tasks = json.loads(k)
        outs = v.get("vm") or v.get("wasm")
        for frac in (False, True):
            reqs.append({"id": len(reqs), "src": program(tasks, frac), "n": len(outs), "backends": ["vm", "wasm"], "sched": True})
            meta.append((tasks, expect(outs), frac))
            if all(t["src"] == "main" for t in tasks):
                # the same configuration with closures bound in a function instead of global functions; and, when two
                # definitions coincide, with one closure object scheduled twice
                reqs.append({"id": len(reqs), "src": program_local(tasks, frac, False), "n": len(outs), "backends": ["vm", "wasm"], "sched": True})
                meta.append((tasks, expect(outs), frac))
                if len({(t["delay"], t["period"]) for t in tasks}) < len(tasks):
                    reqs.append({"id": len(reqs), "src": program_local(tasks, frac, True), "n": len(outs), "backends": ["vm", "wasm"],
                                 "sched": True})
                    meta.append((tasks, expect_shared(tasks, outs), frac))
                if sum(1 for t in tasks if t["period"] == 0) >= 2:
                    reqs.append({"id": len(reqs), "src": program_oneshots(tasks, frac), "n": len(outs), "backends": ["vm", "wasm"],
                                 "sched": True})
                    meta.append((tasks, expect_oneshots(tasks, outs), frac))
    # the model numbers a multiset of task definitions once (in sorted order): the order in which a program makes its
    # scheduling calls is not part of a configuration.  For one-shot tasks scheduled from global scope, 2-4 of them with
    # times that partly coincide, every order of the calls is replayed: the counters do not depend on it.
    import itertools
    pb = {"NSamples": 8, "MaxTasks": 3 if tier == "quick" else 4, "Delays": "{2, 3, 5}" if tier == "quick" else "{2, 3, 5, 7}",
          "Periods": "{0}", "DspAt": "{}"}
    pcfg = {}
    for be in ("vm", "wasm"):
        r = vlib.run_tlc("MCScheduler", cfg(f"MCScheduler_perm_{be}_run", be, pb, "TRUE"), timeout=1200, workers=12)
        chk.tlc(r, f"Scheduler[{be}, one-shots from main, up to {pb['MaxTasks']} tasks]")
        if r.violation:
            chk.violation(f"model: {r.violation} for the {be} mechanism (one-shot configurations)", {"tlc": vlib.tlc_error_trace(r.stdout)},
                          key=f"model-perm-{be}-" + r.violation.replace(" ", "_"))
        for rep in r.tagged["REPLAY"]:
            pcfg.setdefault(json.dumps(rep["cfg"], sort_keys=True), rep["outs"])
    nperm = 0
    for k, outs in pcfg.items():
        tasks = json.loads(k)
        if len(tasks) < 2:
            continue
        seen = set()
        for perm in itertools.permutations(range(len(tasks))):
            sig = tuple(tasks[i]["delay"] for i in perm)
            if sig in seen:
                continue
            seen.add(sig)
            ptasks = [tasks[i] for i in perm]
            pouts = [[row[i] for i in perm] for row in outs]
            reqs.append({"id": len(reqs), "src": program(ptasks, False), "n": len(outs), "backends": ["vm", "wasm"], "sched": True})
            meta.append((ptasks, expect(pouts), False))
            nperm += 1
    chk.cov["call_order_programs"] = nperm
    res = vlib.run_harness("run", reqs, timeout_per_req=20)
    distinct = set()
    for req, out, crash in res:
        tasks, exp, frac = meta[req["id"]]
        case = {"src": req["src"], "tasks": tasks, "expect": exp}
        key = vlib.canon_key(req["src"])
        if crash or out is None:
            chk.violation(f"runtime process died: {crash}\n{req['src']}", case, key=key)
            continue
        # pinned finding: on WASM a closure created while dsp or a task runs (a task scheduled from dsp,
        # a task that reschedules itself) lives in the per-tick scratch memory that run_dsp reclaims,
        # so it is lost unless it fires on the very next sample: WASM is replayed on configurations
        # whose tasks are all scheduled from global scope and do not reschedule themselves
        wasm_clean = all(t["src"] == "main" and t["period"] == 0 for t in tasks)
        for be in (("vm", "wasm") if wasm_clean else ("vm",)):
            bres = out[be]
            got = [row[0] if row else None for row in bres.get("out", [])]
            if bres.get("status") != "ok" or [float(g) if isinstance(g, (int, float)) else g for g in got] != [float(e) for e in exp]:
                chk.violation(f"{be}: counters seen by dsp {got} (status {bres.get('status')} {bres.get('msg', '')[:120]}) "
                              f"differ from the model's {exp}\n{req['src']}", dict(case, backend=be), key=key)
        if len(set(exp)) > 1:
            distinct.add(key)
    # pinned findings
    d = os.path.join(vlib.VERIF, "findings", "C11")
    if os.path.isdir(d):
        pins = [json.load(open(os.path.join(d, f))) for f in sorted(os.listdir(d)) if f.endswith(".json")]
        preqs = [{"id": i, "src": c["src"], "n": c.get("n", 8), "backends": ["vm", "wasm"], "sched": True} for i, c in enumerate(pins)]
        for req, out, crash in vlib.run_harness("run", preqs, timeout_per_req=20, jobs=2):
            c = pins[req["id"]]
            if crash or out is None or out["vm"].get("out") != out["wasm"].get("out") or out["vm"].get("status") != out["wasm"].get("status"):
                chk.violation(c["what"], {"src": c["src"]}, key=c["key"])
    if reqs:
        chk.add_sample({"tasks": meta[len(meta) // 2][0], "program": reqs[len(reqs) // 2]["src"], "expect": meta[len(meta) // 2][1]})
    chk.cov["configurations"] = len(by_cfg)
    chk.cov["evaluations"] = len(reqs)
    chk.cov["distinct_nontrivial"] = len(distinct)
    chk.cov["rule"] = ("every multiset of task definitions of the bound (TLC, exhaustive, per mechanism) x {integral, fractional} "
                       "times; non-trivial = distinct program whose counter stream is not constant")
    chk.cov["exhaustive"] = True
    chk.assumptions += ["effects of equal-time tasks commute (distinct counters)", "tasks return unit (pinned finding: numeric task result)"]
    return chk.finish()


def replay(path):
    case = json.load(open(path))["case"]
    print(case.get("src", ""))
    print("expect", case.get("expect"))
    return 0

"""C05 — compile-time state layout matches run-time state accesses.

1. StateCursor.tla (transcription of mirgen's offset bookkeeping + the cursor
   protocol): TLC enumerates all function shapes up to a bound and all branch
   paths and checks that every access lands on a leaf of the published layout
   and that the cursor returns to the origin (MCStateCursor).
2. spec -> impl: for every shape of a (smaller) bound TLC prints the published
   layout and the predicted list of state events of every path; the shape is
   turned into a program, compiled, run on VM and WASM with the state hooks on;
   the real layout must equal the predicted one and the real event list of
   every sample must be one of the predicted lists.
3. impl -> spec: recorded runs of LangGen programs, random programs and shipped
   sources are validated by LayoutTrace.tla against the layout the compiler
   published; VM and WASM state words must be equal after every sample
   (Lockstep.tla)."""
import glob
import json
import os
import random

import genprog
import langpipe
import printer
import vlib

MODEL = {
    "quick": [("mc", {"MaxEvents": 2, "MaxArm": 1, "NestIf": "FALSE", "AtomSet": '"full"', "Sw": "FALSE", "Emit": "FALSE"}),
              ("mcsw", {"MaxEvents": 2, "MaxArm": 1, "NestIf": "FALSE", "AtomSet": '"small"', "Sw": "TRUE", "Emit": "FALSE"}),
              ("emit", {"MaxEvents": 2, "MaxArm": 1, "NestIf": "FALSE", "AtomSet": '"small"', "Sw": "FALSE", "Emit": "TRUE"}),
              ("emitsw", {"MaxEvents": 1, "MaxArm": 1, "NestIf": "FALSE", "AtomSet": '"small"', "Sw": "TRUE", "Emit": "TRUE"})],
    "thorough": [("mc3", {"MaxEvents": 3, "MaxArm": 1, "NestIf": "FALSE", "AtomSet": '"full"', "Sw": "FALSE", "Emit": "FALSE"}),
                 ("mcsw2", {"MaxEvents": 2, "MaxArm": 1, "NestIf": "FALSE", "AtomSet": '"full"', "Sw": "TRUE", "Emit": "FALSE"}),
                 ("mcnest", {"MaxEvents": 1, "MaxArm": 1, "NestIf": "TRUE", "AtomSet": '"small"', "Sw": "FALSE", "Emit": "FALSE"}),
                 ("emit", {"MaxEvents": 2, "MaxArm": 1, "NestIf": "FALSE", "AtomSet": '"full"', "Sw": "FALSE", "Emit": "TRUE"}),
                 ("emitsw", {"MaxEvents": 1, "MaxArm": 1, "NestIf": "FALSE", "AtomSet": '"full"', "Sw": "TRUE", "Emit": "TRUE"}),
                 ("emitnest", {"MaxEvents": 1, "MaxArm": 1, "NestIf": "TRUE", "AtomSet": '"small"', "Sw": "FALSE", "Emit": "TRUE"})],
}


def mc_cfg(name, consts):
    path = os.path.join(vlib.TLA_DIR, name + ".cfg")
    with open(path, "w") as f:
        f.write("SPECIFICATION Spec\nCONSTANTS\n")
        for k, v in consts.items():
            f.write(f"  {k} = {v}\n")
        f.write('  IfMode = "disjoint"\n  BacktrackMode = "table"\n  ScoreMode = "nodes2"\n')
        f.write("INVARIANT InvLayout\nINVARIANT InvEmit\nCHECK_DEADLOCK FALSE\n")
    return name


# ---- shape -> program ---------------------------------------------------------
class Builder:
    """shape -> program. Every static branch gets its own digit of `now` in a mixed-radix
    numbering, so that 2^ifs * 3^matches samples visit every combination of static choices."""

    def __init__(self, frac=None):
        self.frac = frac     # fraction written behind every delay length (the cell has floor(length) samples)
        self.fns = {}        # canonical shape json -> name
        self.defs = []       # source text of helper functions, definition order
        self.radix = 1       # product of the radices of the branches numbered so far

    def digit(self, n):
        r = self.radix
        self.radix *= n
        return f"(((now - (now % {r})) / {r}) % {n})"

    def term(self, ev, x):
        k = ev["k"]
        if k == "mem":
            return f"mem({x})"
        if k == "delay":
            return f"delay({ev['n']}{self.frac or ''}, {x}, 1)"
        if k == "call":
            name, tup = self.fn(ev["f"])
            return f"{name}({x}).0" if tup else f"{name}({x})"
        if k == "if":
            d = self.digit(2)
            t = self.sum(ev["t"], x)
            e = self.sum(ev["e"], x)
            return f"(if ({d} >= 1) {{ {t} }} else {{ {e} }})"
        d = self.digit(len(ev["arms"]))
        arms = [self.sum(a, x) for a in ev["arms"]]
        body = ", ".join(f"{i} => {a}" for i, a in enumerate(arms[:-1])) + f", _ => {arms[-1]}"
        return f"(match {d} {{ {body} }})"

    def sum(self, evs, x):
        # terms are generated left to right = evaluation order
        ts = [self.term(ev, x) for ev in evs]
        return " + ".join(ts) if ts else "0"

    def body(self, f, x):
        s = self.sum(f["body"], x)
        if f["feed"] == 0:
            return s, False
        if f["feed"] == 1:
            return f"self + {s}", False
        if f["feed"] == 3:
            # a nested tuple: one `self` cell of three words
            return f"let (sa, (sb, sc)) = self\n  let s = {s}\n  (sa + s, (sb + 1, sc + sa))", True
        # the sum is bound first: an `if` inside a tuple literal is a pinned finding of C01/C03
        return f"let (sa, sb) = self\n  let s = {s}\n  (sa + s, sb + 1)", True

    def fn(self, f):
        key = json.dumps(f, sort_keys=True)
        if key in self.fns:
            return self.fns[key]
        # NOTE: a branch inside a shared callee gets one static condition; the model explores the
        # choices of every dynamic occurrence independently, which includes the real ones
        name = f"g{len(self.fns) + 1}"
        self.fns[key] = (name, f["feed"] >= 2)      # reserve the name before the callees of the body take theirs
        b, tup = self.body(f, "x")
        self.fns[key] = (name, tup)
        self.defs.append(f"fn {name}(x){{\n  {b}\n}}")
        return self.fns[key]


def shape_program(f, frac=None):
    b = Builder(frac)
    body, tup = b.body(f, "now")
    src = "\n".join(b.defs + [f"fn dsp(){{\n  {body}\n}}"]) + "\n"
    return src, b.radix


def norm_events(evs, tag):
    """hook events of dsp's own storage: [op, pos, size]"""
    return [[e[1], e[3], e[4]] for e in evs if e[0] == tag and e[2] == 0]


def run(tier):
    chk = vlib.Check("C05", "model_checking", tier)
    rng = random.Random(vlib.seed())
    vlib.build_harness()
    nontriv = set()
    shapes = []
    for label, consts in MODEL[tier]:
        cfg = mc_cfg(f"MCStateCursor_{label}_run", consts)
        r = vlib.run_tlc("MCStateCursor", cfg, timeout=3000, workers=14)
        chk.tlc(r, f"MCStateCursor[{label}]")
        if r.violation:
            chk.violation(f"model: {r.violation}: the transcribed bookkeeping does not match its own layout ({label})",
                          {"tlc": vlib.tlc_error_trace(r.stdout)}, key="model-" + label)
        shapes += r.tagged["REPLAY"]

    # ---- spec -> impl: predicted layout and event lists vs the instrumented runtimes
    reqs = []
    nshapes = len(shapes)
    for i, s in enumerate(shapes):
        src, radix = shape_program(s["fn"])
        reqs.append({"id": i, "src": src, "n": max(2, min(72, radix)), "backends": ["vm", "wasm"], "sched": False,
                     "rec": {"events": True, "words": True}})
        if '"delay"' in json.dumps(s["fn"]):
            # the same shape with delay lengths that are not whole numbers (2.5, 2.75, 2.25 samples of line: the cell
            # and every access are those of floor(length)); long enough to go round the line
            fr = (".5", ".75", ".25")[i % 3]
            src, radix = shape_program(s["fn"], frac=fr)
            reqs.append({"id": nshapes + i, "src": src, "n": max(8, min(72, radix)), "backends": ["vm", "wasm"], "sched": False,
                         "rec": {"events": True, "words": True}})
    res = vlib.run_harness("run", reqs, timeout_per_req=20)
    for req, out, crash in res:
        s = shapes[req["id"] % nshapes]
        case = {"src": req["src"], "shape": s["fn"]}
        key = vlib.canon_key(req["src"])
        if crash or out is None:
            chk.violation(f"runtime process died: {crash}\n{req['src']}", case, key=key)
            continue
        predicted = {json.dumps(r_["ev"] and [[e["op"], e["pos"], e["size"]] for e in r_["ev"]]) for r_ in s["runs"]}
        for be, tag in (("vm", "st"), ("wasm", "wst")):
            b = out[be]
            if b.get("status") != "ok":
                chk.violation(f"{be}: shape program not executed: {b.get('status')} {b.get('msg', '')[:200]}\n{req['src']}",
                              dict(case, backend=be), key=key)
                continue
            if b.get("skel") != s["sk"]:
                chk.violation(f"{be}: published layout differs from the transcription: real={json.dumps(b.get('skel'))} "
                              f"model={json.dumps(s['sk'])}\n{req['src']}", dict(case, backend=be), key=key)
                continue
            for t, evs in enumerate(b["events"]):
                real = json.dumps(norm_events(evs, tag))
                if real not in predicted:
                    chk.violation(f"{be}: sample {t}: state events {real} are not a path of the model "
                                  f"(predicted {sorted(predicted)[:3]}...)\n{req['src']}", dict(case, backend=be), key=key)
                    break
            if any(c != 0 for c in b.get("cursor", [])):
                chk.violation(f"{be}: cursor not at origin after dsp: {b['cursor']}\n{req['src']}", dict(case, backend=be), key=key)
        # a tuple-valued temporary next to an `if` is a pinned finding of C01 (WASM computes other
        # values there, hence other state words): the word comparison skips those shapes
        txt = json.dumps(s["fn"])
        tuple_and_if = ('"if"' in txt or '"sw"' in txt) and ('"feed": 2' in txt.replace('"feed":2', '"feed": 2') or '"feed": 3' in txt.replace('"feed":3', '"feed": 3'))
        if not tuple_and_if and out["vm"].get("words") != out["wasm"].get("words"):
            chk.violation(f"VM and WASM state words differ\n{req['src']}", case, key=key)
        nontriv.add(key)
    chk.cov["shapes_replayed"] = len(shapes)
    if shapes:
        s = shapes[len(shapes) // 2]
        chk.add_sample({"shape": s["fn"], "layout": s["sk"], "program": shape_program(s["fn"])[0],
                        "predicted_paths": len(s["runs"])})

    # ---- impl -> spec: LayoutTrace over recorded runs
    records, meta, lock = [], {}, []
    corpus = []
    reps = langpipe.generate(chk, "c05", {"Template": '"f"', "Budget": 4 if tier == "quick" else 5, "Lits": "{1}", "Ops": '{"+"}',
                                          "Helpers": '{"counter", "lag", "pacc", "dl", "nest", "acc7"}',
                                          "Prods": '{"now", "if", "mem", "delay", "proj", "tup", "lett", "let"}'})
    for i, rep in enumerate(reps):
        if not rep["oom"]:
            corpus.append((f"gen{i}", printer.program(rep["prog"]), None))
    fns, sig = langpipe.prelude()
    for i in range(150 if tier == "quick" else 2000):
        corpus.append((f"rnd{i}", printer.program(genprog.random_program(rng, fns, sig, rng.choice([12, 20, 40]), tuples=False)), None))
    for f in sorted(glob.glob(os.path.join(vlib.REPO, "examples", "*.mmm"))
                    + glob.glob(os.path.join(vlib.REPO, "crates/lib/mimium-test/tests/mmm", "*.mmm"))):
        corpus.append((os.path.basename(f), open(f).read(), f))
    # a stateful call site written in every sub-expression slot of every expression form (lib/sitepos.py)
    import sitepos
    for name, inline, _ref in sitepos.programs():
        corpus.append((name, inline, None))
    pins = {}
    d = os.path.join(vlib.VERIF, "findings", "C05")
    if os.path.isdir(d):
        for fn in sorted(os.listdir(d)):
            if fn.endswith(".json"):
                c = json.load(open(os.path.join(d, fn)))
                pins[c["key"]] = c
                if c.get("src"):
                    corpus.append((f"pin:{fn}", c["src"], None))
    reqs = []
    for name, src, path in corpus:
        r_ = {"id": name, "src": src, "n": 12, "backends": ["vm", "wasm"], "sched": True,
              "rec": {"events": True, "words": "digest"}}
        if path:
            r_["path"] = path
        reqs.append(r_)
    res = vlib.run_harness("run", reqs, timeout_per_req=60, chunk=20)
    for req, out, crash in res:
        key = vlib.canon_key(req["src"])
        case = {"src": req["src"], "name": req["id"]}
        if crash or out is None:
            continue       # crashes are C03's matter
        ok = {be: out[be].get("status") == "ok" and out[be].get("skel") for be in ("vm", "wasm")}
        for be, tag in (("vm", "st"), ("wasm", "wst")):
            if not ok[be]:
                continue
            b = out[be]
            samples = [{"ev": norm_events(evs, tag), "cursor": c} for evs, c in zip(b["events"], b["cursor"])]
            if not any(s_["ev"] for s_ in samples):
                continue
            rid = f"{req['id']}|{be}"
            records.append({"id": rid, "skel": b["skel"], "samples": samples})
            meta[rid] = (case, key, be)
        if ok["vm"] and ok["wasm"] and out["vm"].get("words") and any(out["vm"]["words"]):
            rid = f"{req['id']}|words"
            lock.append({"id": rid, "a": langpipe.side(out["vm"]), "b": langpipe.side(out["wasm"]), "cmpwords": True})
            lock[-1]["a"]["out"] = lock[-1]["b"]["out"] = [[] for _ in out["vm"]["words"]]   # words only
            lock[-1]["a"]["status"] = lock[-1]["b"]["status"] = "ok"
            lock[-1]["a"]["nout"] = lock[-1]["b"]["nout"] = 0
            meta[rid] = (case, key, "vm/wasm")
            nontriv.add(key)
    fails = validate_layout(chk, records)
    for rid, f in fails.items():
        case, key, be = meta[rid]
        what = pins[key]["what"] if key in pins else \
            f"{be}: {rid.split('|')[0]}: {f['what']} at sample {f['at']}: event {f['ev']}\n{case['src'][:1200]}"
        chk.violation(what, dict(case, backend=be), key=key)
    lfails = langpipe.validate_lockstep(chk, lock, "c05")
    for rid, f in lfails.items():
        case, key, be = meta[rid]
        what = pins[key]["what"] if key in pins else \
            f"VM and WASM state words differ after sample {f['at'] - 1} on {rid.split('|')[0]}\n{case['src'][:1200]}"
        chk.violation(what, case, key=key)
    chk.cov["recorded_runs_validated"] = len(records)
    chk.cov["evaluations"] = len(shapes) + len(corpus)
    chk.cov["distinct_nontrivial"] = len(nontriv)
    chk.cov["rule"] = ("function shapes up to the bound x all branch paths (TLC, exhaustive); recorded runs of generated, random "
                       "and shipped programs; non-trivial = distinct program with at least one state cell")
    chk.cov["exhaustive"] = True
    chk.assumptions += ["state of closures (per-closure storages) is observed but not compared with a layout",
                        "integer/union match arms with stateful calls are outside the clean fragment (pinned findings)"]
    return chk.finish()


def validate_layout(chk, records):
    if not records:
        return {}
    from concurrent.futures import ThreadPoolExecutor
    step = 800
    parts = [records[k:k + step] for k in range(0, len(records), step)]

    def one(args):
        k, part = args
        path = os.path.join(vlib.WORK, f"layout_{k}.ndjson")
        with open(path, "w") as f:
            for r in part:
                f.write(json.dumps(r) + "\n")
        try:
            r = vlib.run_tlc("LayoutTrace", workers=1, timeout=1800, env={"TRACE": path},
                             tags=("FAIL", "CONSUMED"), deque=True, xss=True, heap="3g")
        finally:
            os.unlink(path)
        if r.violation or not r.tagged["CONSUMED"] or r.tagged["CONSUMED"][0]["n"] != len(part):
            raise vlib.ToolError(f"LayoutTrace did not consume the whole trace: {r.violation}\n" + r.stdout[-1500:])
        return k, r
    fails = {}
    os.makedirs(vlib.WORK, exist_ok=True)
    with ThreadPoolExecutor(max_workers=6) as ex:
        for k, r in ex.map(one, list(enumerate(parts))):
            chk.tlc(r, f"LayoutTrace[{k}]")
            chk.count("traces_validated_against_impl", len(parts[k]))
            for f_ in r.tagged["FAIL"]:
                fails[f_["id"]] = f_
    return fails


def replay(path):
    case = json.load(open(path))["case"]
    print(case.get("src", json.dumps(case))[:3000])
    return 0

"""C15 — compilation is deterministic.

Session.tla states the property on a model of a compilation session (process-wide
interner, anonymous-function counter, hash seed): what a compilation yields is a
function of the source alone; TLC checks it over all histories of the bound and
shows that each realistic leak (interned id, counter, hash seed) breaks it exactly
in the kinds of history the harness drives.
Code level: the harness compiles (bytecode listing, WASM bytes) and runs (state
layout, first samples, diagnostics) every source of a corpus in several
processes, each process following its own history - a seeded permutation of the
corpus with repetitions, so that every source is compiled after different
predecessors and at least twice in one process.  DeterminismTrace.tla validates
the recorded events: all observations of one source are equal."""
import glob
import json
import os
import random
import re

import langpipe
import printer
import vlib

NPROC = {"quick": 4, "thorough": 16}
NGEN = {"quick": 40, "thorough": 400}
NSAMPLES = 16


def order_table():
    """Programs in which the compiler has to pick among several candidates or walks a collection of user declarations:
    wherever the order of such a walk is not the order of the source text (a hash map, an interned id), two
    compilations differ.  Each kind of declaration appears often enough for a random order to show."""
    n = 8
    t = {}
    t["wild_clash"] = ("mod a {\n  pub fn f(x){ x + 1 }\n}\nmod b {\n  pub fn f(x){ x + 2 }\n}\nuse a::*\nuse b::*\n"
                       "fn dsp(){ f(10) }\n")
    t["wild_clash3"] = ("".join(f"mod m{i} {{\n  pub fn f(x){{ x + {i} }}\n  pub fn g{i}(x){{ x * {i + 2} }}\n  pub fn h(x){{ x - {i} }}\n}}\n"
                                for i in range(4)) + "".join(f"use m{i}::*\n" for i in range(4))
                        + "fn dsp(){ f(10) + h(100) * 1000 + g2(1) }\n")
    t["use_multi"] = ("mod a {\n  pub fn f(x){ x + 1 }\n  pub fn g(x){ x + 2 }\n  pub fn h(x){ x + 3 }\n}\nuse a::{h, f, g}\n"
                      "fn dsp(){ f(1) + g(10) * 100 + h(100) * 10000 }\n")
    t["many_fns"] = "".join(f"fn q{i}(x){{ x * {i + 1} + {i} }}\n" for i in range(n)) + "fn dsp(){ " + " + ".join(
        f"q{i}({i})" for i in range(n)) + " }\n"
    t["many_globals"] = "".join(f"let g{i} = {i * 3 + 1}\n" for i in range(n)) + "fn dsp(){ " + " + ".join(
        f"g{i} * {10 ** (i % 4)}" for i in range(n)) + " }\n"
    t["many_fields"] = ("fn dsp(){\n  let r = {" + ", ".join(f"{nm} = {i + 1}" for i, nm in enumerate(
        ["zeta", "alpha", "mid", "beta", "omega", "gamma", "kappa", "delta"])) + "}\n  r.zeta + r.alpha * 10 + r.omega * 100 + "
        "r.delta * 1000 + r.mid * 10000\n}\n")
    t["many_lambdas"] = ("fn dsp(){\n" + "".join(f"  let k{i} = |x| x * {i + 2}\n" for i in range(n)) + "  " + " + ".join(
        f"k{i}({i + 1})" for i in range(n)) + "\n}\n")
    t["many_modules"] = ("".join(f"mod m{i} {{\n  pub fn f(x){{ x + {i * 7} }}\n}}\n" for i in range(6)) + "fn dsp(){ " + " + ".join(
        f"m{i}::f({i})" for i in range(6)) + " }\n")
    t["many_states"] = ("fn cnt(i){ self + i }\nfn lag(x){ mem(x) }\nfn dsp(){\n" + "".join(
        f"  let s{i} = {'cnt(' + str(i + 1) + ')' if i % 2 == 0 else 'lag(now * ' + str(i) + ')'}\n" for i in range(n)) + "  " + " + ".join(
        f"s{i}" for i in range(n)) + "\n}\n")
    t["many_variants"] = ("type Sh = A(float) | B(float) | C(float) | D(float) | E(float)\nfn val(s){\n  match s {\n"
                          + "".join(f"    {v}(x) => x * {i + 2},\n" for i, v in enumerate("ABCDE")) + "  }\n}\n"
                          "fn dsp(){ val(A(1)) + val(C(10)) + val(E(100)) + val(B(1000)) + val(D(3)) }\n")
    t["many_aliases"] = ("".join(f"type alias T{i} = {'float' if i % 2 == 0 else '(float, float)'}\n" for i in range(6))
                         + "fn f0(x: T0) -> T1 { (x, x + 1) }\nfn f2(p: T3) -> T4 { p.0 + p.1 }\nfn dsp(){ f2(f0(3)) }\n")
    # two sum types that share constructor names: which type a bare constructor belongs to must not depend on the order
    # in which a map of declarations happens to be walked
    t["clash_constructors"] = ("type A = Foo(float) | Bar(float)\ntype B = Baz(float) | Foo((float, float))\n"
                               "fn va(s){\n  match s {\n    Foo(x) => x + 1,\n    Bar(x) => x + 2,\n  }\n}\nfn dsp(){ va(Foo(1.0)) }\n")
    t["clash_constructors4"] = ("".join(f"type T{i} = K(float) | U{i}(float)\n" for i in range(4))
                                + "fn v(s){\n  match s {\n    K(x) => x + 1,\n    U2(x) => x + 2,\n  }\n}\nfn dsp(){ v(K(1.0)) + v(U2(5.0)) }\n")
    # programs that differ only in where a type is declared (module a / module b / top level) and mention it by its bare
    # name: what one compilation resolved must not leak into the next one of the same process
    for where in ("a", "b", "c"):
        t[f"type_in_mod_{where}"] = (f"mod {where} {{\n  pub type alias Num = float | string\n}}\n"
                                     "fn show(v:Num) -> float {\n  match v {\n    float(x) => x + 20.0,\n    string(s) => 0.0\n  }\n}\n"
                                     "fn dsp(){ show(2.0) }\n")
    t["type_at_top"] = ("type alias Num = float | string\nfn show(v:Num) -> float {\n  match v {\n    float(x) => x + 20.0,\n"
                        "    string(s) => 0.0\n  }\n}\nfn dsp(){ show(2.0) }\n")
    t["type_in_two_mods"] = ("mod a {\n  pub type alias Num = float | string\n}\nmod b {\n  pub type alias Num = (float, float)\n}\n"
                             "fn show(v:Num) -> float { 1.0 }\nfn dsp(){ show(2.0) }\n")
    return t


def corpus(chk, tier):
    files = sorted(glob.glob(os.path.join(vlib.REPO, "examples", "*.mmm"))
                   + glob.glob(os.path.join(vlib.REPO, "crates/lib/mimium-test/tests/mmm", "*.mmm")))
    if tier == "quick":
        # a spread of the fixtures: macros, records, sum types, modules, closures, scheduler ...
        files = files[::4]
    out = [(os.path.relpath(f, vlib.REPO), open(f).read(), f) for f in files]
    out += [(f"table:{k}", v, None) for k, v in order_table().items()]
    reps = langpipe.generate(chk, "c15", {"Template": '"f"', "Budget": 3}, timeout=600)
    step = max(1, len(reps) // NGEN[tier])
    for i, r in enumerate(reps[::step][:NGEN[tier]]):
        out.append((f"gen{i}", printer.program(r["prog"]), None))
    return out


def model(chk):
    def cfg(name, leak, threads=1):
        path = os.path.join(vlib.TLA_DIR, name + ".cfg")
        with open(path, "w") as f:
            f.write("SPECIFICATION Spec\nCONSTANTS\n  Sources = {s1, s2}\n  NProcs = 2\n"
                    f"  NThreads = {threads}\n  MaxCompiles = 4\n  Seeds = {{1, 2}}\n  Leak = \"{leak}\"\n"
                    "INVARIANT Deterministic\nCHECK_DEADLOCK FALSE\n")
        return name
    r = vlib.run_tlc("Session", cfg("Session_c15_run", "none"), workers=4, timeout=600)
    if r.violation:
        raise vlib.ToolError("Session.tla violates Deterministic without a leak: " + vlib.tlc_error_trace(r.stdout)[:1200])
    chk.tlc(r, "Session[no leak]")
    for leak in ("interner", "lambda", "hashseed"):
        r = vlib.run_tlc("Session", cfg("Session_c15_leak_run", leak), workers=4, timeout=600)
        if not r.violation:
            raise vlib.ToolError(f"Session.tla: leak {leak} does not violate Deterministic (vacuous model)")
        chk.tlc(r, f"Session[leak {leak}: violation expected]")


def validate(chk, events, label):
    os.makedirs(vlib.WORK, exist_ok=True)
    path = os.path.join(vlib.WORK, f"determinism_{label}.ndjson")
    with open(path, "w") as f:
        for e in events:
            f.write(json.dumps(e) + "\n")
    try:
        r = vlib.run_tlc("DeterminismTrace", workers=1, timeout=3000, env={"TRACE": path}, tags=("FAIL", "CONSUMED"),
                         deque=True, xss=True, heap="4g")
    finally:
        os.unlink(path)
    if r.violation or not r.tagged["CONSUMED"] or r.tagged["CONSUMED"][0]["n"] != len(events):
        raise vlib.ToolError(f"DeterminismTrace did not consume the whole trace: {r.violation}\n" + r.stdout[-1500:])
    chk.tlc(r, f"DeterminismTrace[{label}]")
    chk.count("traces_validated_against_impl", len(events))
    return r.tagged["FAIL"]


def observation(out):
    """what the property names: bytecode listing, WASM bytes, state layout, outputs (+ diagnostics, status)"""
    def g(k, f="digest"):
        return str((out.get(k) or {}).get(f))
    def st(k):
        o = out.get(k) or {}
        # a panic is identified by its message (numbers blanked): "its own panic" and "somebody else's" differ
        return str(o.get("status")) + (":" + re.sub(r"\d+", "N", str(o.get("msg")))[:120] if o.get("status") == "panic" else "")
    return {"status": "/".join(st(k) for k in ("bytecode", "wasm", "run_vm", "run_wasm")),
            "bytecode": g("bytecode"), "wasm": g("wasm"),
            "skel": g("run_vm", "skel") + "/" + g("run_wasm", "skel"),
            "out": g("run_vm", "out") + "/" + g("run_wasm", "out"),
            "diag": g("run_vm", "diag") + "/" + g("run_wasm", "diag")}


def run(tier):
    chk = vlib.Check("C15", "model_checking", tier)
    rng = random.Random(vlib.seed())
    vlib.build_harness()
    model(chk)
    srcs = corpus(chk, tier)
    nproc = NPROC[tier]
    # histories: every process compiles every source twice, in its own order
    hist = []
    for p in range(nproc):
        order = list(range(len(srcs))) * 2
        rng.shuffle(order)
        hist.append(order)
    L = len(srcs) * 2
    reqs = []
    for p, order in enumerate(hist):
        for k, si in enumerate(order):
            name, src, path = srcs[si]
            r = {"id": f"{p}:{k}", "src": src, "n": NSAMPLES, "what": ["bytecode", "wasm"], "sched": True,
                 "backends": ["vm", "wasm"], "_src": si}
            if path:
                r["path"] = path
            reqs.append(r)
    res = vlib.run_harness("compile", [{k: v for k, v in r.items() if k != "_src"} for r in reqs], timeout_per_req=60,
                           jobs=min(nproc, 16), chunk=L)
    events = []
    died = set()
    for full, (req, out, crash) in zip(reqs, res):
        name = srcs[full["_src"]][0]
        if crash or out is None:
            # a source that kills the process is C03's matter; determinism is judged on what can be observed
            died.add(name)
            continue
        events.append({"src": name, "who": req["id"], "obs": observation(out)})
    events = [e for e in events if e["src"] not in died]
    chk.count("sources_that_kill_the_process(C03)", len(died))
    fails = validate(chk, events, "c15")
    byname = {n: (s, p) for n, s, p in srcs}
    for f in fails:
        src, path = byname[f["src"]]
        chk.violation(f"compiling {f['src']} twice gave different {sorted(f['differs'])}: event {f['first']} (process:step) and "
                      f"event {f['who']}\n{src[:1200]}", {"src": src, "name": f["src"], "path": path, "differs": sorted(f["differs"])},
                      key=vlib.canon_key(src))
    chk.cov["sources"] = len(srcs)
    chk.cov["processes"] = nproc
    chk.cov["compilations"] = len(events)
    chk.cov["evaluations"] = len(events)
    chk.cov["distinct_nontrivial"] = len(srcs) - len(died)
    chk.cov["rule"] = ("every source of the corpus compiled twice per process in a seeded order, in several fresh processes; "
                       "non-trivial = distinct source that can be observed (does not kill the process)")
    chk.add_sample({"history_of_process_0": [srcs[i][0] for i in hist[0][:12]]})
    chk.assumptions += ["observed: Display of vm::Program, WASM bytes, dsp state skeleton, first 16 samples on both back ends, "
                        "diagnostics; the MIR listing prints interned ids and is not part of the statement",
                        "hash seeds differ between processes by construction of std's RandomState"]
    return chk.finish()


def replay(path):
    case = json.load(open(path))["case"]
    reqs = [{"id": i, "src": case["src"], "n": NSAMPLES, "what": ["bytecode", "wasm"], "full": True,
             **({"path": case["path"]} if case.get("path") else {})} for i in range(2)]
    a = vlib.run_harness("compile", reqs, jobs=1, chunk=2)
    b = vlib.run_harness("compile", reqs[:1], jobs=1, chunk=1)
    obs = [observation(o) for _, o, _ in a + b]
    for o in obs:
        print(json.dumps(o))
    return 0

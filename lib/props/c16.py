"""C16 — meaning is invariant under renaming, layout and agreeing annotations.

On the specification: MCRename.tla checks with TLC that Lang.tla's output
stream of every LangGen program is invariant under a consistent renaming of all
user-chosen identifiers.  On the code: every program is transformed at the
source level — renamed with an adversarial pool (names resembling those the
compiler mints itself, long and non-ASCII names), wrapped in redundant
parentheses, re-laid out with comments and line breaks inside brackets,
annotated with the types it has anyway — and the transformed program runs next
to the original on both back ends; Lockstep.tla validates that accept/reject and
every output sample agree."""
import json
import os

import langpipe
import printer
import transform
import vlib

POOL = ["lambda_0", "lambda_1", "__default_1_x", "record_update_temp", "feed_global", "__dt0", "dsp2", "q",
        "a_very_long_identifier_name_of_forty_chars_x", "zzünï", "self_", "now_", "mem1", "delay_", "_x", "x_",
        "fn_", "letx", "closure_0", "state", "main_", "_mimium_getnow2", "ptr", "i64x", "tmp", "result", "float_", "t0"]
SHADOW = {"Template": '"f"', "Lits": "{1}", "Ops": '{"+"}', "Helpers": "{}", "Prods": '{"let", "letsh", "asg", "now", "if"}'}
JOBS = {"quick": [("f4", {"Template": '"f"', "Budget": 4, "Lits": "{1, 2}", "Ops": '{"+", "*"}'}),
                  # lets that bind a name of an enclosing scope again, in nested expression positions
                  ("shadow5", dict(SHADOW, Budget=5)),
                  # records of Lang.tla (field names are renamed too; initialisers assign a shared variable), closures
                  # handed to functions
                  ("rec5", dict(dict(langpipe.EXT_CORE["quick"])["rec6"], Budget=5)),
                  ("recclo7", dict(dict(langpipe.EXT_CORE["quick"])["recclo8"], Budget=7)),
                  ("hof6", dict(dict(langpipe.EXT_CORE["quick"])["hof8"], Budget=6))],
        "thorough": [("rec6", dict(langpipe.EXT_CORE["quick"])["rec6"]), ("recclo8", dict(langpipe.EXT_CORE["quick"])["recclo8"]),
                     ("hof7", dict(dict(langpipe.EXT_CORE["quick"])["hof8"], Budget=7)),
                     ("x_arr5", dict(langpipe.EXT_X["quick"])["x_arr5"]),
                     ("shadow6", dict(SHADOW, Budget=6)), ("f5", {"Template": '"f"', "Budget": 5, "Lits": "{1}", "Ops": '{"+"}'}),
                     ("dsp4", {"Template": '"dsp"', "UseInput": "TRUE", "Budget": 4})]}


def sigma_for(prog, i):
    names = transform.user_names(prog)
    return {n: POOL[(i + j * 5) % len(POOL)] + (str(j) if j >= len(POOL) else "") for j, n in enumerate(names)}


def variants(prog, i):
    """(name, source text) of every transformation of a program"""
    out = []
    s = sigma_for(prog, i)
    if len(set(s.values())) == len(s):
        out.append(("rename", printer.program(transform.rename_prog(prog, s))))
    us, n = transform.unshadow_prog(prog)
    if n:
        out.append(("unshadow", printer.program(us)))
    printer.STYLE.update(parens=True)
    out.append(("reparen", printer.program(prog)))
    printer.STYLE.update(parens=False, layout=True)
    out.append(("relayout", printer.program(prog)))
    printer.STYLE.update(layout=False)
    # no indentation at all: a line that starts with ( [ or . must not continue the line before it
    out.append(("flushleft", "\n".join(l.lstrip() for l in printer.program(prog).split("\n"))))
    out.append(("annotate", printer.program(transform.annotate_prog(prog))))
    return out


def record_table():
    """template -> [(variant name, source)]; the first variant is the reference"""
    names = [("a", "b"), ("start", "end"), ("zeta", "alpha"), ("lo", "hi"), ("b", "a")]
    groups = {}
    bump = "  let v = 1\n  let bump = |y| { v = v * 10 + y  v }\n"
    for tname in ("assign", "update", "param", "alias", "nested", "effects", "effects_update", "effects_pipe",
                  "pattern", "pattern_swapped", "pattern_fn", "pattern_global"):
        vs = []
        for f1, f2 in names:
            anns = {"none": "", "same": f":{{{f1}:float, {f2}:float}}", "swapped": f":{{{f2}:float, {f1}:float}}"}
            for aname, ann in anns.items():
                lit = f"{{{f1} = 1.0, {f2} = 10.0}}"
                if tname == "assign":
                    src = f"fn dsp(){{\n  let r{ann} = {lit}\n  r.{f1} = 5.0\n  r.{f1} * 100 + r.{f2}\n}}\n"
                elif tname == "update":
                    src = f"fn dsp(){{\n  let r{ann} = {lit}\n  let s = {{r <- {f1} = 5.0}}\n  s.{f1} * 100 + s.{f2} + r.{f1} * 1000\n}}\n"
                elif tname == "param":
                    src = f"fn upd(r{ann}){{\n  r.{f1} = 5.0\n  r.{f1} * 100 + r.{f2}\n}}\nfn dsp(){{\n  upd({lit})\n}}\n"
                elif tname == "alias":
                    if aname == "none":
                        continue
                    src = f"type alias R = {ann[1:]}\nfn dsp(){{\n  let r:R = {lit}\n  r.{f1} = 5.0\n  r.{f1} * 100 + r.{f2}\n}}\n"
                # initialisers with side effects run in the order they are written, whatever the names of the fields
                elif tname == "effects":
                    src = f"fn dsp(){{\n{bump}  let r{ann} = {{{f1} = bump(1), {f2} = bump(2)}}\n  r.{f1} * 1000 + r.{f2} + v * 100000\n}}\n"
                elif tname == "effects_update":
                    src = (f"fn dsp(){{\n{bump}  let r{ann} = {lit}\n  let s = {{r <- {f1} = bump(3), {f2} = bump(4)}}\n"
                           f"  s.{f1} * 1000 + s.{f2} + r.{f1} * 100000\n}}\n")
                elif tname == "effects_pipe":
                    if aname != "none":
                        continue
                    src = (f"fn g({f1}, {f2}){{ {f1} * 1000 + {f2} }}\nfn dsp(){{\n{bump}  {{{f1} = bump(1), {f2} = bump(2)}} |> g\n}}\n")
                # destructuring reads every field by its name
                elif tname == "pattern":
                    src = f"fn dsp(){{\n  let r{ann} = {{{f1} = now + 1.0, {f2} = 10.0}}\n  let {{{f1} = x, {f2} = y}} = r\n  x * 100 + y\n}}\n"
                elif tname == "pattern_swapped":
                    src = f"fn dsp(){{\n  let r{ann} = {{{f1} = now + 1.0, {f2} = 10.0}}\n  let {{{f2} = y, {f1} = x}} = r\n  x * 100 + y\n}}\n"
                elif tname == "pattern_fn":
                    ret = f" -> {ann[1:]}" if ann else ""
                    src = (f"fn mk(k){ret}{{ {{{f1} = k + 1.0, {f2} = 10.0}} }}\nfn dsp(){{\n  let {{{f1} = x, {f2} = y}} = mk(now)\n"
                           f"  x * 100 + y\n}}\n")
                elif tname == "pattern_global":
                    src = f"let value{ann} = {{{f1} = 3.0, {f2} = 10.0}}\nlet {{{f1} = x, {f2} = y}} = value\nfn dsp(){{\n  x * 100 + y + now\n}}\n"
                else:
                    src = (f"fn dsp(){{\n  let r{ann} = {lit}\n  let q = {{inner = r, {f2} = 2.0}}\n  r.{f2} = 7.0\n"
                           f"  q.inner.{f1} * 100 + q.inner.{f2} + q.{f2} * 1000 + r.{f2} * 10000\n}}\n")
                vs.append((f"{f1}-{f2}-{aname}", src))
        groups[tname] = vs
    return groups


def block_scope_table():
    """alpha-renaming of a binder that is declared *inside* a nested block (after an expression statement, an assignment,
    in an if arm, a lambda body, two levels deep; let / tuple let / letrec): named like nothing else (reference), like the
    outer variable it then shadows, like a compiler-generated name.  The outer variable is read again behind the block."""
    tmpl = {
        "stmt_then_let": "let a = x + 1\n  let r = { a * 2\n    let {I} = 30\n    {I} }\n  r * 100 + a",
        "assign_then_let": "let a = x\n  let r = { (a = a + 1)\n    let {I} = 30\n    {I} }\n  r * 100 + a",
        "call_then_let": "let a = x\n  let r = { cnt()\n    let {I} = 5\n    {I} }\n  r * 10 + a",
        "if_arm": "let a = x\n  let r = if (a > 0) { a + 0\n    let {I} = 5\n    {I} } else { 0 }\n  r * 10 + a",
        "lambda_body": "let a = x\n  let g = |y| { y + 0\n    let {I} = 7\n    {I} + y }\n  g(1) * 10 + a",
        "letrec": "let a = x\n  let r = { a + 0\n    letrec {I} = |n| if (n > 0) n + {I}(n - 1) else 0\n    {I}(3) }\n  r * 10 + a",
        "tuple_let": "let a = x\n  let r = { a + 0\n    let ({I}, b) = (8, 9)\n    {I} + b }\n  r * 10 + a",
        "two_levels": "let a = x\n  let r = { a + 0\n    { a + 1\n      let {I} = 5\n      {I} } + a }\n  r * 10 + a",
        "let_first": "let a = x\n  let r = { let {I} = 5\n    {I} * 2 }\n  r * 10 + a",
        "operand": "let a = x\n  ({ a + 0\n    let {I} = 5\n    {I} } * 10) + a",
    }
    groups = {}
    for tname, body in tmpl.items():
        vs = []
        for iname in ("inner1", "a", "lambda_0", "x"):
            if iname == "x" and tname in ("letrec",):
                continue
            src = ("fn cnt(){ self + 1 }\n" if "cnt()" in body else "") + f"fn f(x){{\n  {body.replace('{I}', iname)}\n}}\nfn dsp(){{ f(1) + f(now) * 100 }}\n"
            vs.append((iname, src))
        groups[f"blockscope_{tname}"] = vs
    return groups


def annotation_table():
    """function definitions of several kinds (plain, with a default argument, recursive, recursive with a default,
    stateful with a default, higher order, tuple in / out) x where agreeing annotations are written (nowhere, on the
    parameters, on the result, on both, on one parameter) x how the function is called; the first variant of a group
    is the reference"""
    F, P = "float", "(float, float)"
    kinds = {
        # name: (parameters [(name, type, default)], result type, body, calls)
        "plain": ([("x", F, None), ("y", F, None)], F, "x * 10 + y", ["f(3, now)"]),
        "default": ([("x", F, None), ("y", F, "2")], F, "x * 10 + y", ["f({x = 3})", "f({x = 3, ..})", "f(3, 4)", "f({x = now, y = 1})"]),
        "recursive": ([("n", F, None), ("acc", F, None)], F, "if (n > 0) f(n - 1, acc + n) else acc", ["f(3, now)"]),
        "recursive_default": ([("n", F, None), ("acc", F, "0")], F, "if (n > 0) f(n - 1, acc + n) else acc",
                              ["f({n = 3})", "f({n = 3, ..})", "f(3, now)"]),
        "stateful_default": ([("x", F, None), ("g", F, "2")], F, "self + x * g", ["f({x = 1})", "f({x = 1, ..})", "f(1, 3)"]),
        "higher_order": ([("g", "(float)->float", None), ("x", F, None)], F, "g(x) + g(x + 1)", ["f(|v| v * 2, now)"]),
        "tuple_io": ([("p", P, None)], P, "(p.1 + 1, p.0)", ["f((now, 2)).0", "f(f((1, now))).1"]),
    }
    groups = {}
    for kname, (params, ret, body, calls) in kinds.items():
        for ci, call in enumerate(calls):
            vs = []
            places = [("none", set(), False), ("params", {p[0] for p in params}, False), ("result", set(), True),
                      ("both", {p[0] for p in params}, True)] + [(f"only_{p[0]}", {p[0]}, False) for p in params]
            if kname == "tuple_io":
                # a projection of an unannotated parameter has no inferred type to agree with: the parameter is
                # annotated in every variant (the first one is the reference)
                places = [pl for pl in places if "p" in pl[1]]
            for pname, annotated, with_ret in places:
                ps = ", ".join(n + (f":{t}" if n in annotated else "") + (f" = {d}" if d else "") for n, t, d in params)
                head = f"fn f({ps})" + (f" -> {ret}" if with_ret else "")
                vs.append((pname, f"{head}{{\n  {body}\n}}\nfn dsp(){{\n  {call}\n}}\n"))
            groups[f"ann_{kname}_{ci}"] = vs
    return groups


def run(tier):
    chk = vlib.Check("C16", "model_checking", tier)
    vlib.build_harness()
    pins = {}
    d = os.path.join(vlib.VERIF, "findings", "C16")
    if os.path.isdir(d):
        for fn in sorted(os.listdir(d)):
            if fn.endswith(".json"):
                c = json.load(open(os.path.join(d, fn)))
                pins[c["key"]] = c
    records, meta = [], {}
    nprog = 0
    for label, consts in JOBS[tier]:
        # the invariance on the specification itself
        c = dict(langpipe.DEFAULT_CONSTS)
        c.update(consts)
        path = os.path.join(vlib.TLA_DIR, f"MCRename_{label}_run.cfg")
        with open(path, "w") as f:
            f.write("SPECIFICATION Spec\nCONSTANTS\n" + "".join(f"  {k} = {v}\n" for k, v in c.items())
                    + "INVARIANT RenameInvariant\nINVARIANT Emit\nCHECK_DEADLOCK FALSE\n")
        r = vlib.run_tlc("MCRename", f"MCRename_{label}_run", workers=12, timeout=3000)
        chk.tlc(r, f"MCRename[{label}]")
        if r.violation:
            chk.violation(f"model: {r.violation}: Lang.tla is not invariant under renaming", {"tlc": vlib.tlc_error_trace(r.stdout)}, key="model")
        reps = sorted(r.tagged["REPLAY"], key=lambda rep: json.dumps(rep, sort_keys=True))
        reqs = []
        step = 1 if tier == "thorough" else 3
        for i, rep in enumerate(reps):
            if rep["oom"] or i % step:
                continue
            base = langpipe.to_request(f"{label}:{i}:orig", rep)
            reqs.append(base)
            for name, src in variants(rep["prog"], i):
                reqs.append(dict(base, id=f"{label}:{i}:{name}", src=src))
        res = vlib.run_harness("run", reqs, timeout_per_req=15)
        by = {req["id"]: (req, out, crash) for req, out, crash in res}
        for rid, (req, out, crash) in by.items():
            if rid.endswith(":orig"):
                continue
            nprog += 1
            oreq, oout, ocrash = by[rid.rsplit(":", 1)[0] + ":orig"]
            key = vlib.canon_key(req["src"])
            case = {"src": req["src"], "original": oreq["src"], "transformation": rid.rsplit(":", 1)[1]}
            if crash or out is None or ocrash or oout is None:
                chk.violation(f"process died on {rid}: {crash or ocrash}\n{req['src']}", case, key=key)
                continue
            for be in ("vm", "wasm"):
                lid = f"{rid}|{be}"
                records.append({"id": lid, "a": langpipe.side(oout[be], False), "b": langpipe.side(out[be], False), "cmpwords": False})
                meta[lid] = (case, key, be)
        if reps:
            chk.add_sample({"original": printer.program(reps[0]["prog"]),
                            "variants": dict(variants(reps[len(reps) // 2]["prog"], len(reps) // 2))})
    # pinned names
    for key, c in pins.items():
        oreq = {"id": f"pin:{key}:orig", "src": c["original"], "n": 6, "backends": ["vm", "wasm"], "sched": True}
        treq = dict(oreq, id=f"pin:{key}:t", src=c["src"])
        res = vlib.run_harness("run", [oreq, treq], timeout_per_req=15, jobs=2)
        (_, oo, oc), (_, to, tc) = res
        for be in ("vm", "wasm"):
            if oo is None or to is None:
                chk.violation(c["what"], {"src": c["src"]}, key=key)
                break
            lid = f"pin:{key}|{be}"
            records.append({"id": lid, "a": langpipe.side(oo[be], False), "b": langpipe.side(to[be], False), "cmpwords": False})
            meta[lid] = ({"src": c["src"], "original": c["original"], "transformation": "pinned"}, key, be)
    # records (outside Lang): field names with different alphabetical orders x agreeing annotations that list the
    # fields in either order, written as an annotation, an alias or a parameter type; every variant of a template
    # computes the same numbers
    groups = record_table()
    groups.update(annotation_table())
    groups.update(block_scope_table())
    rreqs = []
    for gname, variants_ in groups.items():
        for vname, src in variants_:
            rreqs.append({"id": f"{gname}|{vname}", "src": src, "n": 3, "backends": ["vm", "wasm"], "sched": True})
    rres = {req["id"]: (req, out, crash) for req, out, crash in vlib.run_harness("run", rreqs, timeout_per_req=20)}
    for gname, variants_ in groups.items():
        base_id = f"{gname}|{variants_[0][0]}"
        _, bout, bcrash = rres[base_id]
        if bcrash or bout is None or bout["vm"].get("status") != "ok":
            raise vlib.ToolError(f"record table: the base variant {base_id} does not run: {bcrash or bout['vm']}")
        for vname, src in variants_[1:]:
            req, out, crash = rres[f"{gname}|{vname}"]
            nprog += 1
            key = vlib.canon_key(src)
            if crash or out is None:
                chk.violation(f"runtime process died on {gname}|{vname}: {crash}\n{src}", {"src": src}, key=key)
                continue
            for be in ("vm", "wasm"):
                lid = f"rec:{gname}|{vname}|{be}"
                a, b = langpipe.side(bout[be], False), langpipe.side(out[be], False)
                for s_ in (a, b):
                    if s_["status"] in ("reject", "error", "nodsp"):
                        s_["status"] = "refused"
                records.append({"id": lid, "a": a, "b": b, "cmpwords": False})
                meta[lid] = ({"src": src, "original": variants_[0][1], "transformation": f"variant {vname} of table group {gname}"}, key, be)
    chk.cov["record_variants"] = len(rreqs)
    fails = langpipe.validate_lockstep(chk, records, "c16")
    for lid, f in fails.items():
        case, key, be = meta[lid]
        what = pins[key]["what"] if key in pins else \
            f"{be}: {case['transformation']} changes the program ({f['what']} at step {f['at']})\n--- original\n{case['original']}--- transformed\n{case['src']}"
        chk.violation(what, dict(case, backend=be), key=key)
    chk.cov["transformed_programs"] = nprog
    chk.cov["evaluations"] = nprog
    chk.cov["distinct_nontrivial"] = nprog
    chk.cov["rule"] = "LangGen programs (TLC) x {rename with adversarial pool, redundant parentheses, layout noise, agreeing annotations}"
    chk.cov["exhaustive"] = False
    chk.assumptions += ["names never taken from keywords or builtins", "pinned names (findings/C16) are removed from the pool"]
    return chk.finish()


def replay(path):
    case = json.load(open(path))["case"]
    print("--- original\n" + case.get("original", "") + "--- transformed\n" + case.get("src", ""))
    return 0

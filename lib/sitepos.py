"""State-site position table (fourth session).

Every expression form of the language that has sub-expression slots, with a stateful call site written *in* each
slot, alone and next to further stateful sites: in dsp, and inside a helper that is called twice.  For every program
there is a reference variant in which the stateful calls are bound by `let` first and the form uses the variables: a
stateful call has no effect but on its own cell, so the two variants compute the same samples (C02: every textual call
site owns its own state wherever it is written).  C05 validates the recorded state accesses of the inline variants
against the published layout, C03 runs them under its contract, C02 compares inline against reference.

The table generalises what the seeded changes C02-b (condition of an if), C07-c (operands of a delay), C02-d (callee
expression) and C03-d (constructor payload) each needed."""

HELPERS = {      # a helper that is never called keeps unresolved parameter types (pinned findings): only the used ones
    "counter": "fn counter(inc){ self + inc }\n",
    "lag": "fn lag(x){ mem(x) }\n",
    "addw": "fn addw(a, b){ a + b * 10.0 }\n",
    "mkplus": "fn mkplus(k){ |v| v + k }\n",
    "acc": "fn acc(x){ self * 0.5 + x }\n",
    "swap": "fn swap(p:(float, float)){ (p.1, p.0) }\n",
    "dflt": "fn dflt(a, b = 3.0){ a * b }\n",
    "unwrap": "type Opt = Some(float) | None\nfn unwrap(o){\n  match o {\n    Some(v) => v,\n    None => 0.0\n  }\n}\n",
}


def prelude(body):
    import re
    return "".join(src for name, src in HELPERS.items() if re.search(r"\b" + name + r"\b", body))


# name -> (statements before the result, result expression); {S} = first stateful site, {T} = second one
FORMS = {
    "call_arg": ("", "addw({S}, 1.0)"),
    "call_args2": ("", "addw({S}, {T})"),
    "nested_call_arg": ("", "addw(addw({S}, 1.0), {T})"),
    "callee_curried": ("", "mkplus({S})(2.0)"),
    "callee_pipe": ("", "(2.0 |> mkplus({S}))"),
    "pipe_arg": ("", "({S} |> lag)"),
    "ctor_payload": ("", "unwrap(Some({S}))"),
    "ctor_payload_let": ("  let o = Some({S})\n", "unwrap(o)"),
    "tuple_elem": ("  let t = ({S}, 2.0)\n", "t.0 + t.1"),
    "tuple_elem2": ("  let t = (1.0, {S}, {T})\n", "t.0 + t.1 + t.2"),
    "tuple_arg": ("", "swap(({S}, 2.0)).1"),
    "record_field": ("  let r = {zeta = {S}, alpha = 2.0}\n", "r.zeta + r.alpha"),
    "record_update": ("  let r = {zeta = 1.0, alpha = 2.0}\n  let q = { r <- alpha = {S} }\n", "q.zeta + q.alpha"),
    "field_assign": ("  let r = {zeta = 1.0, alpha = 2.0}\n  r.alpha = {S}\n", "r.zeta + r.alpha"),
    "array_elem": ("  let a = [{S}, 2.0, 3.0]\n", "a[0] + a[2]"),
    "array_index": ("  let a = [5.0, 6.0, 7.0]\n", "a[{S} % 3.0]"),
    "if_cond": ("", "(if ({S} % 3.0 > 1.5) { 1.0 } else { 2.0 })"),
    "match_scrutinee": ("", "(match ({S} % 3.0) { 0 => 10.0, 1 => 20.0, _ => 30.0 })"),
    "delay_src": ("", "delay(4.0, {S}, 2.0)"),
    "delay_time": ("", "delay(4.0, now, {S} % 3.0)"),
    "delay_both": ("", "delay(4.0, {S}, {T} % 3.0)"),
    "mem_operand": ("", "mem({S})"),
    "binop": ("", "({S} * 2.0 + {T})"),
    "neg": ("", "(0.0 - {S})"),
    "cmp_logic": ("", "(({S} > 2.0) && ({T} < 5.0))"),
    "lambda_applied": ("", "(|v| v + 1.0)({S})"),
    "closure_call_arg": ("  let f = |v| v * 2.0\n", "f({S})"),
    "block": ("", "{ let q = 1.0\n  {S} + q }"),
    "assign": ("  let x = 0.0\n  x = {S}\n", "x + 1.0"),
    "default_arg": ("", "dflt({a = {S}})"),
    "self_fn_arg": ("", "acc({S})"),
    "let_tuple_rhs": ("  let (p, q) = ({S}, {T})\n", "p * 2.0 + q"),
}
SITES = {"S": "counter(1.0)", "T": "lag(now)"}


def programs():
    """[(name, inline source, reference source)]"""
    out = []
    for fname, (stmts, res) in FORMS.items():
        for ctx in ("dsp", "helper"):
            for tail in ("", "tail"):
                inline_b = stmts.replace("{S}", SITES["S"]).replace("{T}", SITES["T"])
                inline_r = res.replace("{S}", SITES["S"]).replace("{T}", SITES["T"])
                ref_pre = "  let s1 = " + SITES["S"] + "\n" + ("  let s2 = " + SITES["T"] + "\n" if "{T}" in stmts + res else "")
                ref_b = stmts.replace("{S}", "s1").replace("{T}", "s2")
                ref_r = res.replace("{S}", "s1").replace("{T}", "s2")
                # a further stateful site behind the form: its cell lies behind the form's cells
                t = " + counter(5.0) * 1000.0" if tail else ""
                pre = prelude(inline_b + inline_r + t)
                if ctx == "dsp":
                    inline = f"{pre}fn dsp(){{\n{inline_b}  {inline_r}{t}\n}}\n"
                    ref = f"{pre}fn dsp(){{\n{ref_pre}{ref_b}  {ref_r}{t}\n}}\n"
                else:
                    inline = f"{pre}fn h(z){{\n{inline_b}  {inline_r} + z{t}\n}}\nfn dsp(){{\n  h(1.0) + h(2.0) * 100.0\n}}\n"
                    ref = f"{pre}fn h(z){{\n{ref_pre}{ref_b}  {ref_r} + z{t}\n}}\nfn dsp(){{\n  h(1.0) + h(2.0) * 100.0\n}}\n"
                out.append((f"site:{fname}:{ctx}{':' + tail if tail else ''}", inline, ref))
    return out

//! `run`: drive one program on the requested backends, sample by sample, with
//! optional hot swaps, recording outputs, state words, live-object counts and
//! hook events.
use crate::rt::{self, BuildErr, Rt};
use mimium_lang::runtime::verif_hooks as vh;
use serde_json::{Value, json};
use std::panic::{AssertUnwindSafe, catch_unwind};

fn evs_json(evs: Vec<vh::Ev>) -> Value {
    Value::Array(
        evs.into_iter()
            .map(|e| json!([e.tag, e.kind, e.a, e.b, e.c, e.d]))
            .collect(),
    )
}

fn one_backend(req: &Value, be: &str) -> Value {
    let src = req["src"].as_str().unwrap_or("");
    let n = req["n"].as_u64().unwrap_or(8);
    let sched = req["sched"].as_bool().unwrap_or(true);
    let path = req["path"].as_str().map(|s| s.to_string());
    let words_digest = req["rec"]["words"].as_str() == Some("digest");
    let rec_words = req["rec"]["words"].as_bool().unwrap_or(false) || words_digest;
    let rec_events = req["rec"]["events"].as_bool().unwrap_or(false);
    let rec_counts = req["rec"]["counts"].as_bool().unwrap_or(false);
    let strict = req["strict"].as_bool().unwrap_or(true);
    let inputs = req["inputs"].as_array().cloned().unwrap_or_default();
    let swaps = req["swaps"].as_array().cloned().unwrap_or_default();

    vh::set_strict(strict);
    if rec_events {
        vh::start();
    }
    let built = catch_unwind(AssertUnwindSafe(|| match be {
        "vm" => rt::build_vm(src, &path, sched),
        _ => rt::build_wasm(src, &path, sched),
    }));
    let main_events = if rec_events { vh::drain() } else { vec![] };
    let mut r = match built {
        Err(e) => {
            let _ = vh::take();
            return json!({"status": "panic", "phase": "build", "msg": crate::panic_msg(e),
                "loc": crate::LAST_PANIC_LOC.with(|l| l.borrow().clone())});
        }
        Ok(Err(BuildErr::Reject(d))) => {
            let _ = vh::take();
            return json!({"status": "reject", "diags": d});
        }
        Ok(Err(BuildErr::Other(m))) => {
            let _ = vh::take();
            return json!({"status": "error", "msg": m});
        }
        Ok(Ok(r)) => r,
    };
    let io = r.io();
    let skel = r.skeleton().map(|s| rt::skel_to_json(&s));
    let mut out: Vec<Value> = vec![];
    let mut words: Vec<Value> = vec![];
    let mut cursors: Vec<Value> = vec![];
    let mut counts: Vec<Value> = vec![];
    let mut events: Vec<Value> = vec![];
    let mut swapres: Vec<Value> = vec![];
    let mut skels: Vec<Value> = vec![];
    let mut status = json!("ok");
    let mut extra = json!({});
    if io.is_none() {
        let _ = vh::take();
        return json!({"status": "nodsp", "skel": skel});
    }
    for t in 0..n {
        // swaps scheduled before sample t
        for s in swaps.iter().filter(|s| s["at"].as_u64() == Some(t)) {
            let ssrc = s["src"].as_str().unwrap_or("").to_string();
            let res = catch_unwind(AssertUnwindSafe(|| r.swap(&ssrc)));
            match res {
                Ok(v) => {
                    swapres.push(v);
                    skels.push(r.skeleton().map(|s| rt::skel_to_json(&s)).unwrap_or(Value::Null));
                }
                Err(e) => {
                    status = json!("panic");
                    extra = json!({"phase": "swap", "at": t, "msg": crate::panic_msg(e),
                        "loc": crate::LAST_PANIC_LOC.with(|l| l.borrow().clone())});
                    break;
                }
            }
            if rec_events {
                let _ = vh::drain();
            }
        }
        if status != "ok" {
            break;
        }
        let inp: Vec<f64> = inputs
            .get(t as usize)
            .and_then(|v| v.as_array())
            .map(|a| a.iter().map(rt::denum).collect())
            .unwrap_or_default();
        // never hand the runtime more input words than dsp declares
        // and always as many as it declares (zeros when the request gives none): the audio
        // drivers write the input words before every dsp call
        let nin = io.map_or(0, |i| i.0 as usize);
        let mut inp: Vec<f64> = inp.into_iter().take(nin).collect();
        inp.resize(nin, 0.0);
        let res = catch_unwind(AssertUnwindSafe(|| r.tick(&inp)));
        match res {
            Ok((rc, o)) => {
                if rc < 0 {
                    status = json!("dsp_error");
                    extra = json!({"at": t, "rc": rc});
                    break;
                }
                out.push(Value::Array(o.iter().map(|v| rt::num(*v)).collect()));
            }
            Err(e) => {
                status = json!("panic");
                extra = json!({"phase": "dsp", "at": t, "msg": crate::panic_msg(e),
                    "loc": crate::LAST_PANIC_LOC.with(|l| l.borrow().clone())});
                if rec_events {
                    events.push(evs_json(vh::drain()));
                }
                break;
            }
        }
        if rec_words {
            let (pos, mut w) = r.words();
            // the WASM host grows its storage on demand: untouched trailing cells are zero
            if let Some(sk) = r.skeleton() {
                let total = sk.total_size() as usize;
                if w.len() < total {
                    w.resize(total, 0);
                }
            }
            cursors.push(json!(pos));
            if words_digest && w.len() > 16 {
                // FNV-1a over the words: long state vectors travel as [length, digest]
                let mut h: u64 = 0xcbf29ce484222325;
                for x in &w {
                    for b in x.to_le_bytes() {
                        h ^= b as u64;
                        h = h.wrapping_mul(0x100000001b3);
                    }
                }
                words.push(json!([format!("len{}", w.len()), format!("h{h:016x}")]));
            } else {
                words.push(Value::Array(w.iter().map(|x| rt::word(*x)).collect()));
            }
        }
        if rec_counts {
            let c = r.counts();
            counts.push(json!([c.0, c.1, c.2]));
        }
        if rec_events {
            events.push(evs_json(vh::drain()));
        }
    }
    let _ = vh::take();
    let io2 = r.io();
    let mut res = json!({"status": status, "nin": io.map(|i| i.0), "nout": io.map(|i| i.1),
        "nout_end": io2.map(|i| i.1), "out": out, "skel": skel});
    let m = res.as_object_mut().unwrap();
    if let Some(e) = extra.as_object() {
        for (k, v) in e {
            m.insert(k.clone(), v.clone());
        }
    }
    if rec_words {
        m.insert("words".into(), Value::Array(words));
        m.insert("cursor".into(), Value::Array(cursors));
    }
    if rec_counts {
        m.insert("counts".into(), Value::Array(counts));
    }
    if rec_events {
        m.insert("main_events".into(), evs_json(main_events));
        m.insert("events".into(), Value::Array(events));
    }
    if !swaps.is_empty() {
        m.insert("swaps".into(), Value::Array(swapres));
        m.insert("skels".into(), Value::Array(skels));
    }
    res
}

pub fn run(req: &Value) -> Value {
    let backends: Vec<String> = req["backends"]
        .as_array()
        .map(|a| a.iter().filter_map(|v| v.as_str().map(String::from)).collect())
        .unwrap_or_else(|| vec!["vm".into(), "wasm".into()]);
    let mut res = json!({"id": req["id"]});
    for be in backends {
        let v = one_backend(req, &be);
        res.as_object_mut().unwrap().insert(be, v);
    }
    res
}

use serde_json::{Value, json};
pub fn fmt(req: &Value) -> Value { json!({"id": req["id"], "todo": true}) }
pub fn ffi(req: &Value) -> Value { json!({"id": req["id"], "todo": true}) }
pub fn compile(req: &Value) -> Value { json!({"id": req["id"], "todo": true}) }
pub fn threads(req: &Value) -> Value { json!({"id": req["id"], "todo": true}) }
pub fn rust(req: &Value) -> Value { json!({"id": req["id"], "todo": true}) }

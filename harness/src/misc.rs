//! Smaller commands: `ffi` (C20), `fmt` (C14), `compile` (C15), `threads` (C19), `rust` (C18).
use mimium_lang::ast::{Expr, Literal};
use mimium_lang::interner::{ExprNodeId, ToSymbol, TypeNodeId};
use mimium_lang::interpreter::{ExtFunction, Value as MValue};
use mimium_lang::runtime::ffi_serde;
use mimium_lang::types::{IntermediateId, PType, RecordTypeField, Type, TypeSchemeId, TypeVar};
use mimium_lang::utils::environment::Environment;
use serde_json::{Value, json};
use std::panic::{AssertUnwindSafe, catch_unwind};
use std::sync::{Arc, RwLock};

// ---------------------------------------------------------------------------------------------
// C20: values and types across the plugin FFI encoding
fn code_expr(n: i64) -> ExprNodeId {
    Expr::Literal(Literal::Int(n)).into_id_without_span()
}

fn to_value(v: &Value) -> MValue {
    match v["k"].as_str().unwrap() {
        "unit" => MValue::Unit,
        "num" => MValue::Number(f64::from_bits(
            u64::from_str_radix(v["b"].as_str().unwrap(), 16).unwrap(),
        )),
        "str" => MValue::String(v["s"].as_str().unwrap().to_symbol()),
        "arr" => MValue::Array(v["es"].as_array().unwrap().iter().map(to_value).collect()),
        "tup" => MValue::Tuple(v["es"].as_array().unwrap().iter().map(to_value).collect()),
        "rec" => MValue::Record(
            v["fs"]
                .as_array()
                .unwrap()
                .iter()
                .map(|f| (f["n"].as_str().unwrap().to_symbol(), to_value(&f["v"])))
                .collect(),
        ),
        "tag" => MValue::TaggedUnion(v["t"].as_u64().unwrap(), Box::new(to_value(&v["v"]))),
        "code" => MValue::Code(code_expr(v["c"].as_i64().unwrap())),
        "error" => MValue::ErrorV(code_expr(0)),
        "closure" => MValue::Closure(code_expr(0), vec![], Environment::new()),
        "fixpoint" => MValue::Fixpoint("f".to_symbol(), code_expr(0)),
        "extfn" => MValue::ExternalFn(ExtFunction::new("ext".to_symbol(), |_| MValue::Unit)),
        "store" => MValue::Store(std::rc::Rc::new(std::cell::RefCell::new(to_value(&v["v"])))),
        "ctor" => MValue::ConstructorFn(0, "C".to_symbol(), Type::Primitive(PType::Unit).into_id()),
        k => panic!("bad value kind {k}"),
    }
}

fn from_value(v: &MValue) -> Value {
    match v {
        MValue::Unit => json!({"k": "unit"}),
        MValue::Number(n) => json!({"k": "num", "b": format!("{:016x}", n.to_bits())}),
        MValue::String(s) => json!({"k": "str", "s": s.as_str()}),
        MValue::Array(a) => json!({"k": "arr", "es": a.iter().map(from_value).collect::<Vec<_>>()}),
        MValue::Tuple(a) => json!({"k": "tup", "es": a.iter().map(from_value).collect::<Vec<_>>()}),
        MValue::Record(fs) => json!({"k": "rec", "fs": fs.iter().map(|(n, v)| json!({"n": n.as_str(), "v": from_value(v)})).collect::<Vec<_>>()}),
        MValue::TaggedUnion(t, v) => json!({"k": "tag", "t": t, "v": from_value(v)}),
        MValue::Code(e) => match e.to_expr() {
            Expr::Literal(Literal::Int(n)) => json!({"k": "code", "c": n}),
            _ => json!({"k": "code", "c": "other"}),
        },
        MValue::ErrorV(_) => json!({"k": "error"}),
        MValue::Closure(..) => json!({"k": "closure"}),
        MValue::Fixpoint(..) => json!({"k": "fixpoint"}),
        MValue::ExternalFn(_) => json!({"k": "extfn"}),
        MValue::Store(v) => json!({"k": "store", "v": from_value(&v.borrow())}),
        MValue::ConstructorFn(..) => json!({"k": "ctor"}),
    }
}

fn to_type(t: &Value) -> TypeNodeId {
    let ty = match t["k"].as_str().unwrap() {
        "prim" => Type::Primitive(match t["p"].as_str().unwrap() {
            "unit" => PType::Unit,
            "int" => PType::Int,
            "numeric" => PType::Numeric,
            _ => PType::String,
        }),
        "arr" => Type::Array(to_type(&t["t"])),
        "tup" => Type::Tuple(t["ts"].as_array().unwrap().iter().map(to_type).collect()),
        "rec" => Type::Record(
            t["fs"]
                .as_array()
                .unwrap()
                .iter()
                .map(|f| RecordTypeField::new(f["n"].as_str().unwrap().to_symbol(), to_type(&f["t"]), f["d"].as_bool().unwrap_or(false)))
                .collect(),
        ),
        "fn" => Type::Function { arg: to_type(&t["a"]), ret: to_type(&t["r"]) },
        "ref" => Type::Ref(to_type(&t["t"])),
        "code" => Type::Code(to_type(&t["t"])),
        "union" => Type::Union(t["ts"].as_array().unwrap().iter().map(to_type).collect()),
        "usum" => Type::UserSum {
            name: t["name"].as_str().unwrap().to_symbol(),
            variants: t["vs"]
                .as_array()
                .unwrap()
                .iter()
                .map(|v| (v["n"].as_str().unwrap().to_symbol(), if v["t"]["k"] == "none" { None } else { Some(to_type(&v["t"])) }))
                .collect(),
        },
        "boxed" => Type::Boxed(to_type(&t["t"])),
        "alias" => Type::TypeAlias(t["s"].as_str().unwrap().to_symbol()),
        "any" => Type::Any,
        "failure" => Type::Failure,
        "unknown" => Type::Unknown,
        "intermediate" => Type::Intermediate(Arc::new(RwLock::new(TypeVar::new(IntermediateId(7), 0)))),
        "scheme" => Type::TypeScheme(TypeSchemeId(3)),
        k => panic!("bad type kind {k}"),
    };
    ty.into_id()
}

fn from_type(t: TypeNodeId) -> Value {
    match t.to_type() {
        Type::Primitive(p) => json!({"k": "prim", "p": match p { PType::Unit => "unit", PType::Int => "int", PType::Numeric => "numeric", PType::String => "string" }}),
        Type::Array(t) => json!({"k": "arr", "t": from_type(t)}),
        Type::Tuple(ts) => json!({"k": "tup", "ts": ts.iter().map(|t| from_type(*t)).collect::<Vec<_>>()}),
        Type::Record(fs) => json!({"k": "rec", "fs": fs.iter().map(|f| json!({"n": f.key.as_str(), "t": from_type(f.ty), "d": f.has_default})).collect::<Vec<_>>()}),
        Type::Function { arg, ret } => json!({"k": "fn", "a": from_type(arg), "r": from_type(ret)}),
        Type::Ref(t) => json!({"k": "ref", "t": from_type(t)}),
        Type::Code(t) => json!({"k": "code", "t": from_type(t)}),
        Type::Union(ts) => json!({"k": "union", "ts": ts.iter().map(|t| from_type(*t)).collect::<Vec<_>>()}),
        Type::UserSum { name, variants } => json!({"k": "usum", "name": name.as_str(), "vs": variants.iter().map(|(n, t)| json!({"n": n.as_str(), "t": t.map(from_type).unwrap_or(json!({"k": "none"}))})).collect::<Vec<_>>()}),
        Type::Boxed(t) => json!({"k": "boxed", "t": from_type(t)}),
        Type::TypeAlias(s) => json!({"k": "alias", "s": s.as_str()}),
        Type::Any => json!({"k": "any"}),
        Type::Failure => json!({"k": "failure"}),
        Type::Unknown => json!({"k": "unknown"}),
        Type::Intermediate(_) => json!({"k": "intermediate"}),
        Type::TypeScheme(_) => json!({"k": "scheme"}),
    }
}

/// in : {id, v?: value, t?: type}
/// out: {id, value_ret: {status: ok|refused|panic, got}, value_args: .., value_serde: .., type_serde: ..}
pub fn ffi(req: &Value) -> Value {
    let mut res = serde_json::Map::new();
    res.insert("id".into(), req["id"].clone());
    let wrap = |f: &dyn Fn() -> Result<Value, String>| -> Value {
        match catch_unwind(AssertUnwindSafe(f)) {
            Ok(Ok(v)) => json!({"status": "ok", "got": v}),
            Ok(Err(e)) => json!({"status": "refused", "msg": e}),
            Err(e) => json!({"status": "panic", "msg": crate::panic_msg(e)}),
        }
    };
    if !req["v"].is_null() {
        let v = req["v"].clone();
        // macro result path
        res.insert("value_ret".into(), wrap(&|| {
            let bytes = ffi_serde::serialize_value(&to_value(&v))?;
            ffi_serde::deserialize_value(&bytes).map(|d| from_value(&d))
        }));
        // macro argument path (value + type pairs)
        res.insert("value_args".into(), wrap(&|| {
            let ty = Type::Primitive(PType::Numeric).into_id();
            let bytes = ffi_serde::serialize_macro_args(&[(to_value(&v), ty), (MValue::Unit, ty)])?;
            let d = ffi_serde::deserialize_macro_args(&bytes)?;
            if d.len() != 2 {
                return Err(format!("{} arguments decoded instead of 2", d.len()));
            }
            Ok(from_value(&d[0].0))
        }));
        // the interpreter value's own serde implementation
        res.insert("value_serde".into(), wrap(&|| {
            let bytes = bincode::serialize(&to_value(&v)).map_err(|e| e.to_string())?;
            let d: MValue = bincode::deserialize(&bytes).map_err(|e| format!("DECODE: {e}"))?;
            Ok(from_value(&d))
        }));
    }
    if !req["t"].is_null() {
        let t = req["t"].clone();
        res.insert("type_serde".into(), wrap(&|| {
            let ty = to_type(&t).to_type();
            let bytes = bincode::serialize(&ty).map_err(|e| e.to_string())?;
            let d: Type = bincode::deserialize(&bytes).map_err(|e| format!("DECODE: {e}"))?;
            Ok(json!({"t": from_type(d.clone().into_id()), "eq": d == ty}))
        }));
    }
    Value::Object(res)
}

pub fn fmt(req: &Value) -> Value { json!({"id": req["id"], "todo": true}) }
pub fn compile(req: &Value) -> Value { json!({"id": req["id"], "todo": true}) }
pub fn threads(req: &Value) -> Value { json!({"id": req["id"], "todo": true}) }
pub fn rust(req: &Value) -> Value { json!({"id": req["id"], "todo": true}) }

//! Smaller commands: `ffi` (C20), `fmt` (C14), `compile` (C15), `threads` (C19), `rust` (C18).
use mimium_lang::ast::{Expr, Literal};
use mimium_lang::interner::{ExprNodeId, ToSymbol, TypeNodeId};
use mimium_lang::interpreter::{ExtFunction, Value as MValue};
use mimium_lang::runtime::ffi_serde;
use mimium_lang::types::{IntermediateId, PType, RecordTypeField, Type, TypeSchemeId, TypeVar};
use mimium_lang::utils::environment::Environment;
use serde_json::{Value, json};
use std::panic::{AssertUnwindSafe, catch_unwind};
use std::sync::{Arc, RwLock};

// ---------------------------------------------------------------------------------------------
// C20: values and types across the plugin FFI encoding
fn code_expr(n: i64) -> ExprNodeId {
    Expr::Literal(Literal::Int(n)).into_id_without_span()
}

fn to_value(v: &Value) -> MValue {
    match v["k"].as_str().unwrap() {
        "unit" => MValue::Unit,
        "num" => MValue::Number(f64::from_bits(
            u64::from_str_radix(v["b"].as_str().unwrap(), 16).unwrap(),
        )),
        "str" => MValue::String(v["s"].as_str().unwrap().to_symbol()),
        "arr" => MValue::Array(v["es"].as_array().unwrap().iter().map(to_value).collect()),
        "tup" => MValue::Tuple(v["es"].as_array().unwrap().iter().map(to_value).collect()),
        "rec" => MValue::Record(
            v["fs"]
                .as_array()
                .unwrap()
                .iter()
                .map(|f| (f["n"].as_str().unwrap().to_symbol(), to_value(&f["v"])))
                .collect(),
        ),
        "tag" => MValue::TaggedUnion(v["t"].as_u64().unwrap(), Box::new(to_value(&v["v"]))),
        "code" => MValue::Code(code_expr(v["c"].as_i64().unwrap())),
        "error" => MValue::ErrorV(code_expr(0)),
        "closure" => MValue::Closure(code_expr(0), vec![], Environment::new()),
        "fixpoint" => MValue::Fixpoint("f".to_symbol(), code_expr(0)),
        "extfn" => MValue::ExternalFn(ExtFunction::new("ext".to_symbol(), |_| MValue::Unit)),
        "store" => MValue::Store(std::rc::Rc::new(std::cell::RefCell::new(to_value(&v["v"])))),
        "ctor" => MValue::ConstructorFn(0, "C".to_symbol(), Type::Primitive(PType::Unit).into_id()),
        k => panic!("bad value kind {k}"),
    }
}

fn from_value(v: &MValue) -> Value {
    match v {
        MValue::Unit => json!({"k": "unit"}),
        MValue::Number(n) => json!({"k": "num", "b": format!("{:016x}", n.to_bits())}),
        MValue::String(s) => json!({"k": "str", "s": s.as_str()}),
        MValue::Array(a) => json!({"k": "arr", "es": a.iter().map(from_value).collect::<Vec<_>>()}),
        MValue::Tuple(a) => json!({"k": "tup", "es": a.iter().map(from_value).collect::<Vec<_>>()}),
        MValue::Record(fs) => json!({"k": "rec", "fs": fs.iter().map(|(n, v)| json!({"n": n.as_str(), "v": from_value(v)})).collect::<Vec<_>>()}),
        MValue::TaggedUnion(t, v) => json!({"k": "tag", "t": t, "v": from_value(v)}),
        MValue::Code(e) => match e.to_expr() {
            Expr::Literal(Literal::Int(n)) => json!({"k": "code", "c": n}),
            _ => json!({"k": "code", "c": "other"}),
        },
        MValue::ErrorV(_) => json!({"k": "error"}),
        MValue::Closure(..) => json!({"k": "closure"}),
        MValue::Fixpoint(..) => json!({"k": "fixpoint"}),
        MValue::ExternalFn(_) => json!({"k": "extfn"}),
        MValue::Store(v) => json!({"k": "store", "v": from_value(&v.borrow())}),
        MValue::ConstructorFn(..) => json!({"k": "ctor"}),
    }
}

fn to_type(t: &Value) -> TypeNodeId {
    let ty = match t["k"].as_str().unwrap() {
        "prim" => Type::Primitive(match t["p"].as_str().unwrap() {
            "unit" => PType::Unit,
            "int" => PType::Int,
            "numeric" => PType::Numeric,
            _ => PType::String,
        }),
        "arr" => Type::Array(to_type(&t["t"])),
        "tup" => Type::Tuple(t["ts"].as_array().unwrap().iter().map(to_type).collect()),
        "rec" => Type::Record(
            t["fs"]
                .as_array()
                .unwrap()
                .iter()
                .map(|f| RecordTypeField::new(f["n"].as_str().unwrap().to_symbol(), to_type(&f["t"]), f["d"].as_bool().unwrap_or(false)))
                .collect(),
        ),
        "fn" => Type::Function { arg: to_type(&t["a"]), ret: to_type(&t["r"]) },
        "ref" => Type::Ref(to_type(&t["t"])),
        "code" => Type::Code(to_type(&t["t"])),
        "union" => Type::Union(t["ts"].as_array().unwrap().iter().map(to_type).collect()),
        "usum" => Type::UserSum {
            name: t["name"].as_str().unwrap().to_symbol(),
            variants: t["vs"]
                .as_array()
                .unwrap()
                .iter()
                .map(|v| (v["n"].as_str().unwrap().to_symbol(), if v["t"]["k"] == "none" { None } else { Some(to_type(&v["t"])) }))
                .collect(),
        },
        "boxed" => Type::Boxed(to_type(&t["t"])),
        "alias" => Type::TypeAlias(t["s"].as_str().unwrap().to_symbol()),
        "any" => Type::Any,
        "failure" => Type::Failure,
        "unknown" => Type::Unknown,
        "intermediate" => Type::Intermediate(Arc::new(RwLock::new(TypeVar::new(IntermediateId(7), 0)))),
        "scheme" => Type::TypeScheme(TypeSchemeId(3)),
        k => panic!("bad type kind {k}"),
    };
    ty.into_id()
}

fn from_type(t: TypeNodeId) -> Value {
    match t.to_type() {
        Type::Primitive(p) => json!({"k": "prim", "p": match p { PType::Unit => "unit", PType::Int => "int", PType::Numeric => "numeric", PType::String => "string" }}),
        Type::Array(t) => json!({"k": "arr", "t": from_type(t)}),
        Type::Tuple(ts) => json!({"k": "tup", "ts": ts.iter().map(|t| from_type(*t)).collect::<Vec<_>>()}),
        Type::Record(fs) => json!({"k": "rec", "fs": fs.iter().map(|f| json!({"n": f.key.as_str(), "t": from_type(f.ty), "d": f.has_default})).collect::<Vec<_>>()}),
        Type::Function { arg, ret } => json!({"k": "fn", "a": from_type(arg), "r": from_type(ret)}),
        Type::Ref(t) => json!({"k": "ref", "t": from_type(t)}),
        Type::Code(t) => json!({"k": "code", "t": from_type(t)}),
        Type::Union(ts) => json!({"k": "union", "ts": ts.iter().map(|t| from_type(*t)).collect::<Vec<_>>()}),
        Type::UserSum { name, variants } => json!({"k": "usum", "name": name.as_str(), "vs": variants.iter().map(|(n, t)| json!({"n": n.as_str(), "t": t.map(from_type).unwrap_or(json!({"k": "none"}))})).collect::<Vec<_>>()}),
        Type::Boxed(t) => json!({"k": "boxed", "t": from_type(t)}),
        Type::TypeAlias(s) => json!({"k": "alias", "s": s.as_str()}),
        Type::Any => json!({"k": "any"}),
        Type::Failure => json!({"k": "failure"}),
        Type::Unknown => json!({"k": "unknown"}),
        Type::Intermediate(_) => json!({"k": "intermediate"}),
        Type::TypeScheme(_) => json!({"k": "scheme"}),
    }
}

/// in : {id, v?: value, t?: type}
/// out: {id, value_ret: {status: ok|refused|panic, got}, value_args: .., value_serde: .., type_serde: ..}
pub fn ffi(req: &Value) -> Value {
    let mut res = serde_json::Map::new();
    res.insert("id".into(), req["id"].clone());
    let wrap = |f: &dyn Fn() -> Result<Value, String>| -> Value {
        match catch_unwind(AssertUnwindSafe(f)) {
            Ok(Ok(v)) => json!({"status": "ok", "got": v}),
            Ok(Err(e)) => json!({"status": "refused", "msg": e}),
            Err(e) => json!({"status": "panic", "msg": crate::panic_msg(e)}),
        }
    };
    if !req["v"].is_null() {
        let v = req["v"].clone();
        // macro result path
        res.insert("value_ret".into(), wrap(&|| {
            let bytes = ffi_serde::serialize_value(&to_value(&v))?;
            ffi_serde::deserialize_value(&bytes).map(|d| from_value(&d))
        }));
        // macro argument path (value + type pairs)
        res.insert("value_args".into(), wrap(&|| {
            let ty = Type::Primitive(PType::Numeric).into_id();
            let bytes = ffi_serde::serialize_macro_args(&[(to_value(&v), ty), (MValue::Unit, ty)])?;
            let d = ffi_serde::deserialize_macro_args(&bytes)?;
            if d.len() != 2 {
                return Err(format!("{} arguments decoded instead of 2", d.len()));
            }
            Ok(from_value(&d[0].0))
        }));
        // the interpreter value's own serde implementation
        res.insert("value_serde".into(), wrap(&|| {
            let bytes = bincode::serialize(&to_value(&v)).map_err(|e| e.to_string())?;
            let d: MValue = bincode::deserialize(&bytes).map_err(|e| format!("DECODE: {e}"))?;
            Ok(from_value(&d))
        }));
    }
    if !req["t"].is_null() {
        let t = req["t"].clone();
        res.insert("type_serde".into(), wrap(&|| {
            let ty = to_type(&t).to_type();
            let bytes = bincode::serialize(&ty).map_err(|e| e.to_string())?;
            let d: Type = bincode::deserialize(&bytes).map_err(|e| format!("DECODE: {e}"))?;
            Ok(json!({"t": from_type(d.clone().into_id()), "eq": d == ty}))
        }));
    }
    Value::Object(res)
}

// ---------------------------------------------------------------------------------------------
// C14: the formatter. One request = one text at one width and indent size: format, parse input and
// output, compare the syntax trees without spans, list the comments, format again.
fn normalize_ast_debug(s: &str) -> String {
    // drop white space and every span (`<digits>..<digits>`, printed after nodes and operators)
    let b: Vec<u8> = s.bytes().filter(|c| !c.is_ascii_whitespace()).collect();
    let mut out = String::with_capacity(b.len());
    let mut i = 0;
    while i < b.len() {
        if b[i].is_ascii_digit() && (i == 0 || !(b[i - 1].is_ascii_alphanumeric() || b[i - 1] == b'_' || b[i - 1] == b'.')) {
            let mut j = i;
            while j < b.len() && b[j].is_ascii_digit() {
                j += 1;
            }
            if j + 1 < b.len() && b[j] == b'.' && b[j + 1] == b'.' {
                let mut k = j + 2;
                while k < b.len() && b[k].is_ascii_digit() {
                    k += 1;
                }
                if k > j + 2 {
                    i = k;
                    if i < b.len() && b[i] == b',' {
                        i += 1;
                    }
                    continue;
                }
            }
        }
        out.push(b[i] as char);
        i += 1;
    }
    out
}

fn comments_of(text: &str) -> Vec<String> {
    use mimium_lang::compiler::parser::{TokenKind, tokenize};
    tokenize(text)
        .iter()
        .filter(|t| matches!(t.kind, TokenKind::SingleLineComment | TokenKind::MultiLineComment))
        .map(|t| t.text(text).trim_end().to_string())
        .collect()
}

fn ast_of(text: &str, path: Option<std::path::PathBuf>) -> (String, usize) {
    let (e, _mi, errs) = mimium_lang::compiler::parser::parse_to_expr(text, path);
    (normalize_ast_debug(&format!("{:?}", e)), errs.len())
}

pub fn fmt(req: &Value) -> Value {
    let text = req["text"].as_str().unwrap_or("").to_string();
    let width = req["width"].as_u64().unwrap_or(80) as usize;
    let indent = req["indent"].as_u64().unwrap_or(4) as usize;
    let full = req["full"].as_bool().unwrap_or(false);
    let r = catch_unwind(AssertUnwindSafe(|| {
        if let Ok(mut g) = mimium_fmt::GLOBAL_DATA.lock() {
            g.indent_size = indent;
        }
        let path = req["path"].as_str().map(std::path::PathBuf::from);
        let (ast0, nerr0) = ast_of(&text, path.clone());
        if nerr0 > 0 {
            return json!({"status": "invalid_input", "nerr": nerr0});
        }
        let out1 = match mimium_fmt::pretty_print_cst(&text, &None, width) {
            Ok(o) => o,
            Err(_) => return json!({"status": "refused"}),
        };
        let (ast1, nerr1) = ast_of(&out1, path.clone());
        let out2 = mimium_fmt::pretty_print_cst(&out1, &None, width).ok();
        let c0 = comments_of(&text);
        let c1 = comments_of(&out1);
        let mut v = json!({"status": "ok", "nerr_out": nerr1, "same_ast": ast0 == ast1,
                           "ast_in": digest(ast0.as_bytes()), "ast_out": digest(ast1.as_bytes()),
                           "comments_in": c0, "comments_out": c1,
                           "text1": digest(out1.as_bytes()),
                           "text2": out2.as_ref().map(|o| digest(o.as_bytes())),
                           "maxline": out1.lines().map(|l| l.chars().count()).max().unwrap_or(0)});
        if full {
            v["out1"] = json!(out1);
            v["out2"] = json!(out2);
            v["ast0"] = json!(ast0);
            v["ast1"] = json!(ast1);
        }
        v
    }));
    let mut v = match r {
        Ok(v) => v,
        Err(e) => json!({"status": "panic", "msg": crate::panic_msg(e), "loc": crate::LAST_PANIC_LOC.with(|l| l.borrow().clone())}),
    };
    v["id"] = req["id"].clone();
    v["width"] = json!(width);
    v["indent"] = json!(indent);
    v
}
// ---------------------------------------------------------------------------------------------
// C15: one compilation of one text; what it emits (MIR listing, bytecode listing, WASM bytes, Rust
// source) travels as text digests, plus the texts themselves when `full` is set.
fn digest(s: &[u8]) -> String {
    // FNV-1a 64 twice with different offsets: a fingerprint, not a security hash
    let mut a: u64 = 0xcbf29ce484222325;
    let mut b: u64 = 0x84222325cbf29ce4;
    for &c in s {
        a = (a ^ c as u64).wrapping_mul(0x100000001b3);
        b = (b ^ c as u64).wrapping_mul(0x100000001b3).rotate_left(5);
    }
    format!("{a:016x}{b:016x}:{}", s.len())
}

pub fn compile(req: &Value) -> Value {
    let src = req["src"].as_str().unwrap_or("").to_string();
    let full = req["full"].as_bool().unwrap_or(false);
    let what: Vec<String> = req["what"]
        .as_array()
        .map(|a| a.iter().filter_map(|v| v.as_str().map(String::from)).collect())
        .unwrap_or_else(|| ["mir", "bytecode", "wasm", "rust"].iter().map(|s| s.to_string()).collect());
    let mk = || {
        let path = req["path"].as_str().map(std::path::PathBuf::from);
        let mut ctx = mimium_lang::ExecContext::new([].into_iter(), path, mimium_lang::Config::default());
        if req["sched"].as_bool().unwrap_or(true) {
            ctx.add_system_plugin(mimium_scheduler::get_default_scheduler_plugin());
        }
        ctx.prepare_compiler();
        ctx
    };
    let mut res = serde_json::Map::new();
    res.insert("id".into(), req["id"].clone());
    for w in what {
        let src = src.clone();
        let r = catch_unwind(AssertUnwindSafe(|| -> Result<Vec<u8>, Value> {
            let ctx = mk();
            let c = ctx.get_compiler().unwrap();
            match w.as_str() {
                "mir" => c.emit_mir(&src).map(|m| format!("{m}").into_bytes()),
                "bytecode" => c.emit_bytecode(&src).map(|p| format!("{p}").into_bytes()),
                "wasm" => c.emit_wasm(&src).map(|o| o.bytes),
                "rust" => c.emit_rust(&src).map(|o| o.source.into_bytes()),
                _ => Ok(vec![]),
            }
            .map_err(|e| crate::rt::errs_to_json(&e))
        }));
        let v = match r {
            Err(e) => json!({"status": "panic", "msg": crate::panic_msg(e)}),
            Ok(Err(d)) => json!({"status": "refused", "diags": d, "digest": digest(d.to_string().as_bytes())}),
            Ok(Ok(bytes)) => {
                let mut v = json!({"status": "ok", "digest": digest(&bytes)});
                if full {
                    v["text"] = json!(String::from_utf8_lossy(&bytes));
                }
                v
            }
        };
        res.insert(w, v);
    }
    // outputs and published state layout of a run, when asked for
    if req["n"].as_u64().is_some() {
        let r = crate::run::run(req);
        for be in ["vm", "wasm"] {
            if let Some(b) = r.get(be) {
                let out = serde_json::to_string(&b["out"]).unwrap_or_default();
                let skel = serde_json::to_string(&b["skel"]).unwrap_or_default();
                let diag = serde_json::to_string(&b["diags"]).unwrap_or_default();
                res.insert(
                    format!("run_{be}"),
                    json!({"status": b["status"], "out": digest(out.as_bytes()), "skel": digest(skel.as_bytes()),
                           "diag": digest(diag.as_bytes()), "msg": b["msg"]}),
                );
            }
        }
    }
    Value::Object(res)
}
// ---------------------------------------------------------------------------------------------
// C19: K threads of one process compile and run their jobs at the same time.
pub fn threads(req: &Value) -> Value {
    use mimium_lang::interner::verif as iv;
    let jobs: Vec<Value> = req["jobs"].as_array().cloned().unwrap_or_default();
    let k = jobs.len();
    iv::set_perturbation(req["perturb"].as_u64().unwrap_or(0));
    let log = req["log"].as_bool().unwrap_or(false);
    if log {
        iv::start_log();
    }
    // the process environment variable the macro stage publishes its file in (C19: restored afterwards)
    unsafe { std::env::remove_var("MIMIUM_CURRENT_MACRO_FILE") };
    let barrier = std::sync::Arc::new(std::sync::Barrier::new(k));
    let handles: Vec<_> = jobs
        .into_iter()
        .enumerate()
        .map(|(i, job)| {
            let barrier = barrier.clone();
            std::thread::Builder::new()
                .stack_size(64 << 20)
                .spawn(move || {
                    iv::set_thread_tag(i as u64 + 1);
                    barrier.wait();
                    let loc = std::cell::RefCell::new(String::new());
                    let r = catch_unwind(AssertUnwindSafe(|| compile(&job)));
                    match r {
                        Ok(v) => v,
                        Err(e) => {
                            let _ = &loc;
                            json!({"id": job["id"], "thread_panic": crate::panic_msg(e),
                                   "loc": crate::LAST_PANIC_LOC.with(|l| l.borrow().clone())})
                        }
                    }
                })
                .unwrap()
        })
        .collect();
    let results: Vec<Value> = handles
        .into_iter()
        .map(|h| h.join().unwrap_or_else(|_| json!({"thread_panic": "thread died"})))
        .collect();
    iv::set_perturbation(0);
    let events: Vec<Value> = if log {
        iv::take_log()
            .into_iter()
            .map(|e| json!({"seq": e.seq, "t": e.thread, "op": e.op, "id": e.id, "d": format!("{:016x}", e.digest), "fresh": e.fresh}))
            .collect()
    } else {
        vec![]
    };
    let env_after = std::env::var_os("MIMIUM_CURRENT_MACRO_FILE").map(|v| v.to_string_lossy().to_string());
    json!({"id": req["id"], "threads": results, "events": events, "env_after": env_after})
}
// ---------------------------------------------------------------------------------------------
// C18: generated Rust. emit_rust -> rustc --edition=2024 -> run with a host that supplies `now`
// (in samples) and `samplerate` the way the audio driver does.
const RUST_HOST: &str = r#"
struct VerifHost { now: f64, sample_rate: f64 }
impl MimiumHost for VerifHost {
    // the core library's scalar functions (crates/lib/mimium-lang/src/plugin/builtin_functins.rs), as the
    // VM's default plugin supplies them; anything else is a plugin call and not part of the subset
    fn call_ext(&mut self, name: &str, args: &[Word], _ret_words: usize) -> Result<Vec<Word>, String> {
        let a = |i: usize| word_to_f64(args[i]);
        let b = |c: bool| if c { 1.0 } else { 0.0 };
        let r = match (name, args.len()) {
            ("neg", 1) => -a(0), ("abs", 1) => a(0).abs(), ("sqrt", 1) => a(0).sqrt(),
            ("round", 1) => a(0).round(), ("floor", 1) => a(0).floor(), ("ceil", 1) => a(0).ceil(),
            ("not", 1) => b(a(0) == 0.0),
            ("sin", 1) => a(0).sin(), ("cos", 1) => a(0).cos(), ("tan", 1) => a(0).tan(),
            ("sinh", 1) => a(0).sinh(), ("cosh", 1) => a(0).cosh(), ("tanh", 1) => a(0).tanh(),
            ("asin", 1) => a(0).asin(), ("acos", 1) => a(0).acos(), ("atan", 1) => a(0).atan(),
            ("probe", 1) | ("probeln", 1) => { eprintln!("{}", a(0)); a(0) }
            ("add", 2) => a(0) + a(1), ("sub", 2) => a(0) - a(1), ("mult", 2) => a(0) * a(1),
            ("div", 2) => a(0) / a(1), ("modulo", 2) => a(0) % a(1),
            ("eq", 2) => b(a(0) == a(1)), ("ne", 2) => b(a(0) != a(1)), ("lt", 2) => b(a(0) < a(1)),
            ("le", 2) => b(a(0) <= a(1)), ("gt", 2) => b(a(0) > a(1)), ("ge", 2) => b(a(0) >= a(1)),
            ("atan2", 2) => a(0).atan2(a(1)), ("pow", 2) => a(0).powf(a(1)),
            ("min", 2) => a(0).min(a(1)), ("max", 2) => a(0).max(a(1)),
            _ => return Err(format!("unexpected external call: {}", name)),
        };
        Ok(vec![f64_to_word(r)])
    }
    fn current_time(&mut self) -> f64 { self.now }
    fn sample_rate(&mut self) -> f64 { self.sample_rate }
}
"#;

pub fn rust(req: &Value) -> Value {
    use std::process::Command;
    let src = req["src"].as_str().unwrap_or("").to_string();
    let n = req["n"].as_u64().unwrap_or(8);
    let dir = req["dir"].as_str().unwrap_or("/tmp").to_string();
    let id = req["id"].to_string().replace(|c: char| !c.is_ascii_alphanumeric(), "_");
    let inputs: Vec<Vec<f64>> = req["inputs"]
        .as_array()
        .map(|a| a.iter().map(|r| r.as_array().map(|x| x.iter().map(crate::rt::denum).collect()).unwrap_or_default()).collect())
        .unwrap_or_default();
    let emitted = catch_unwind(AssertUnwindSafe(|| {
        let path = req["path"].as_str().map(std::path::PathBuf::from);
        let mut ctx = mimium_lang::ExecContext::new([].into_iter(), path, mimium_lang::Config::default());
        ctx.prepare_compiler();
        ctx.get_compiler().unwrap().emit_rust(&src).map_err(|e| crate::rt::errs_to_json(&e))
    }));
    let output = match emitted {
        Err(e) => return json!({"id": req["id"], "status": "panic", "msg": crate::panic_msg(e)}),
        Ok(Err(d)) => return json!({"id": req["id"], "status": "refused", "diags": d}),
        Ok(Ok(o)) => o,
    };
    let nin = output.io_channels.map_or(0, |io| io.input as usize);
    let call_main = if output.source.contains("pub fn call_main") { "    program.call_main().unwrap();\n" } else { "" };
    let has_dsp = output.source.contains("pub fn call_dsp");
    let mut body = String::new();
    if has_dsp {
    body.push_str("    let inputs: Vec<Vec<f64>> = vec![");
    for t in 0..n as usize {
        let row: Vec<String> = (0..nin).map(|c| format!("f64::from_bits({}u64)", inputs.get(t).and_then(|r| r.get(c)).copied().unwrap_or(0.0).to_bits())).collect();
        body.push_str(&format!("vec![{}],", row.join(",")));
    }
    body.push_str("];\n    for row in inputs.iter() {\n        let words: Vec<Word> = row.iter().map(|v| f64_to_word(*v)).collect();\n        let output = program.call_dsp(&words).unwrap();\n        let strs: Vec<String> = output.iter().map(|w| format!(\"{:016x}\", word_to_f64(*w).to_bits())).collect();\n        println!(\"{}\", strs.join(\" \"));\n        program.host.now += 1.0;\n    }\n");
    } else {
        body.push_str("    let _ = &mut program;\n");
    }
    let main = format!("{RUST_HOST}\nfn main() {{\n    let host = VerifHost {{ now: 0.0, sample_rate: 48_000.0 }};\n    let mut program = MimiumProgram::with_host(host);\n{call_main}{body}}}\n");
    let _ = std::fs::create_dir_all(&dir);
    let src_path = format!("{dir}/gen_{id}.rs");
    let bin_path = format!("{dir}/gen_{id}");
    std::fs::write(&src_path, format!("{}{main}", output.source)).unwrap();
    let rustc = std::env::var("RUSTC").unwrap_or_else(|_| "rustc".to_string());
    let compile = Command::new(&rustc).arg("--edition=2024").arg("-Awarnings").arg("-Copt-level=0").arg(&src_path).arg("-o").arg(&bin_path).output();
    let res = match compile {
        Err(e) => json!({"id": req["id"], "status": "tool_error", "msg": e.to_string()}),
        Ok(c) if !c.status.success() => json!({"id": req["id"], "status": "rustc_failed",
            "msg": String::from_utf8_lossy(&c.stderr).chars().take(600).collect::<String>()}),
        Ok(_) => match Command::new(&bin_path).output() {
            Err(e) => json!({"id": req["id"], "status": "tool_error", "msg": e.to_string()}),
            Ok(r) if !r.status.success() => json!({"id": req["id"], "status": "run_failed",
                "msg": String::from_utf8_lossy(&r.stderr).chars().take(400).collect::<String>()}),
            Ok(r) => {
                let out: Vec<Value> = String::from_utf8_lossy(&r.stdout)
                    .lines()
                    .map(|l| Value::Array(l.split_whitespace().map(|w| crate::rt::word(u64::from_str_radix(w, 16).unwrap_or(0))).collect()))
                    .collect();
                json!({"id": req["id"], "status": if has_dsp { "ok" } else { "nodsp" }, "out": out})
            }
        },
    };
    let _ = std::fs::remove_file(&src_path);
    let _ = std::fs::remove_file(&bin_path);
    res
}

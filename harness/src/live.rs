//! `live`: the live-coding loop of the CLI, end to end and without an audio device.
//! The runtime is built as `run_file` builds it (default context, `main`, native driver),
//! the output callback of the native driver (`NativeAudioData::process`) is invoked directly,
//! and an edit is "the watcher reports a change of the file": the file is rewritten and the
//! `FileRunner` reacts exactly as in `cli_loop` (compile service thread for the VM, compiler
//! subprocess for WASM - the subprocess is this binary, see main.rs -, payload composition,
//! channel to the audio callback).
//!
//! request: {id, backend: "vm"|"wasm", src, ops: [{op:"edit", src} | {op:"cb", frames}], hch, bufsize}
//! result : {id, status, out: [[ch..] per frame], nout, pending: [payloads waiting per cb]}
use std::path::PathBuf;
use std::sync::{Arc, mpsc};

use mimium_audiodriver::{
    backends::cpal::{NativeDriver, VerifAudioCallback},
    driver::{Driver, RuntimeData},
};
use mimium_lang::{
    Config,
    compiler::wasmgen::WasmGenerator,
    runtime::wasm::engine::{WasmDspRuntime, WasmEngine},
};
use serde_json::{Value, json};
use std::panic::{AssertUnwindSafe, catch_unwind};

use crate::rt;

struct Session {
    cb: VerifAudioCallback,
    fr: mimium_cli::VerifFileRunner,
    nout: usize,
    _driver: NativeDriver,
}

fn build(be: &str, src: &str, path: &PathBuf, hch: usize, bufsize: usize) -> Result<Session, Value> {
    let mut driver = NativeDriver::new(bufsize, None, None);
    let use_wasm = be == "wasm";
    let mut ctx = mimium_cli::get_default_context(Some(path.clone()), false, use_wasm, Config::default());
    if !use_wasm {
        ctx.add_plugin(driver.get_as_plugin());
        ctx.prepare_machine(src)
            .map_err(|e| json!({"status": "reject", "diags": rt::errs_to_json(&e)}))?;
        let _ = ctx.run_main();
        let rd = RuntimeData::try_from(&mut ctx).map_err(|_| json!({"status": "error", "msg": "no vm"}))?;
        let nout = rd.io_channels().map_or(0, |io| io.output as usize);
        let cb = VerifAudioCallback::new(&mut driver, rd, 48000, hch);
        let compiler = ctx.take_compiler().ok_or(json!({"status": "error", "msg": "no compiler"}))?;
        let fr = mimium_cli::VerifFileRunner::new_vm(compiler, path.clone(), driver.get_program_channel());
        Ok(Session { cb, fr, nout, _driver: driver })
    } else {
        ctx.prepare_compiler();
        let mut ext_fns = ctx.get_extfun_types();
        ext_fns.sort_by(|a, b| a.name.as_str().cmp(b.name.as_str()));
        ext_fns.dedup_by(|a, b| a.name == b.name);
        let mir = ctx
            .get_compiler()
            .unwrap()
            .emit_mir(src)
            .map_err(|e| json!({"status": "reject", "diags": rt::errs_to_json(&e)}))?;
        let io = mir.get_dsp_iochannels();
        let skel = mir.get_dsp_state_skeleton().cloned();
        let bytes = WasmGenerator::new(Arc::new(mir), &ext_fns)
            .generate()
            .map_err(|e| json!({"status": "reject", "diags": [{"msg": format!("wasmgen: {e}"), "labels": []}]}))?;
        let plugin_fns = ctx.freeze_wasm_plugin_fns();
        let plugin_fns_for_hotswap = plugin_fns.clone();
        let workers = ctx.generate_wasm_audioworkers();
        let mut eng = WasmEngine::new(&ext_fns, plugin_fns).map_err(|e| json!({"status": "error", "msg": format!("engine: {e}")}))?;
        eng.load_module(&bytes)
            .map_err(|e| json!({"status": "error", "msg": format!("load: {e}")}))?;
        let mut wrt = WasmDspRuntime::new(eng, io, skel.clone());
        wrt.set_wasm_audioworkers(workers);
        let (retire_tx, retire_rx) = mpsc::channel();
        wrt.set_engine_retire_sender(retire_tx);
        ctx.run_wasm_on_init(wrt.engine_mut());
        let _ = wrt.run_main();
        ctx.run_wasm_after_main(wrt.engine_mut());
        let rd = RuntimeData::new_from_runtime(Box::new(wrt));
        let nout = rd.io_channels().map_or(0, |io| io.output as usize);
        let cb = VerifAudioCallback::new(&mut driver, rd, 48000, hch);
        let compiler = ctx.take_compiler().ok_or(json!({"status": "error", "msg": "no compiler"}))?;
        let fr = mimium_cli::VerifFileRunner::new_wasm(
            compiler,
            path.clone(),
            driver.get_program_channel(),
            skel,
            ext_fns,
            plugin_fns_for_hotswap,
            Some(retire_rx),
        );
        Ok(Session { cb, fr, nout, _driver: driver })
    }
}

pub fn live(req: &Value) -> Value {
    let be = req["backend"].as_str().unwrap_or("vm").to_string();
    let src = req["src"].as_str().unwrap_or("").to_string();
    let hch = req["hch"].as_u64().unwrap_or(2) as usize;
    let bufsize = req["bufsize"].as_u64().unwrap_or(64) as usize;
    let ops = req["ops"].as_array().cloned().unwrap_or_default();
    let dir = req["dir"].as_str().unwrap_or("/tmp").to_string();
    let path = PathBuf::from(format!(
        "{dir}/live_{}_{}.mmm",
        std::process::id(),
        req["id"].as_u64().unwrap_or(0)
    ));
    if std::fs::write(&path, &src).is_err() {
        return json!({"id": req["id"], "status": "error", "msg": "cannot write the source file"});
    }
    let built = catch_unwind(AssertUnwindSafe(|| build(&be, &src, &path, hch, bufsize)));
    let mut s = match built {
        Err(e) => {
            let _ = std::fs::remove_file(&path);
            return json!({"id": req["id"], "status": "panic", "phase": "build", "msg": crate::panic_msg(e),
                "loc": crate::LAST_PANIC_LOC.with(|l| l.borrow().clone())});
        }
        Ok(Err(mut v)) => {
            let _ = std::fs::remove_file(&path);
            v.as_object_mut().unwrap().insert("id".into(), req["id"].clone());
            return v;
        }
        Ok(Ok(s)) => s,
    };
    let mut out: Vec<Value> = vec![];
    let mut status = json!("ok");
    let mut extra = json!({});
    for (i, op) in ops.iter().enumerate() {
        match op["op"].as_str().unwrap_or("") {
            "edit" => {
                let nsrc = op["src"].as_str().unwrap_or("");
                if std::fs::write(&path, nsrc).is_err() {
                    status = json!("error");
                    break;
                }
                let r = catch_unwind(AssertUnwindSafe(|| s.fr.on_file_event()));
                if let Err(e) = r {
                    status = json!("panic");
                    extra = json!({"phase": "edit", "at": i, "msg": crate::panic_msg(e),
                        "loc": crate::LAST_PANIC_LOC.with(|l| l.borrow().clone())});
                    break;
                }
            }
            "cb" => {
                let frames = op["frames"].as_u64().unwrap_or(1) as usize;
                let mut dst = vec![0f32; frames * hch];
                let r = catch_unwind(AssertUnwindSafe(|| s.cb.process(&mut dst)));
                if let Err(e) = r {
                    status = json!("panic");
                    extra = json!({"phase": "cb", "at": i, "msg": crate::panic_msg(e),
                        "loc": crate::LAST_PANIC_LOC.with(|l| l.borrow().clone())});
                    break;
                }
                for fr in dst.chunks(hch) {
                    out.push(Value::Array(fr.iter().map(|v| rt::num(*v as f64)).collect()));
                }
            }
            _ => {}
        }
    }
    let _ = std::fs::remove_file(&path);
    let nout_end = s.cb.runtime_data().io_channels().map_or(0, |io| io.output as usize);
    let mut res = json!({"id": req["id"], "status": status, "out": out, "nout": s.nout, "nout_end": nout_end});
    if let Some(e) = extra.as_object() {
        for (k, v) in e {
            res.as_object_mut().unwrap().insert(k.clone(), v.clone());
        }
    }
    res
}

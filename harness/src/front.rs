use serde_json::{Value, json};
pub fn lex(req: &Value) -> Value { json!({"id": req["id"], "todo": true}) }
pub fn front(req: &Value) -> Value { json!({"id": req["id"], "todo": true}) }

//! `lex`: tokens, trivia attachment and CST leaves of one text (C13).
//! `front`: the front-end and compile entry points on one text (C04); every call runs in a
//! thread with a 2 MiB stack (tokio's default, the language server's situation).
use mimium_lang::compiler::parser::{self, GreenNodeArena, GreenNodeId, TokenKind};
use serde_json::{Value, json};
use std::panic::{AssertUnwindSafe, catch_unwind};

fn leaves(arena: &GreenNodeArena, id: GreenNodeId, out: &mut Vec<usize>) {
    // iterative: deep trees must not overflow the harness' own stack
    let mut stack = vec![id];
    while let Some(n) = stack.pop() {
        match arena.get(n) {
            parser::green::GreenNode::Token { token_index, .. } => out.push(*token_index),
            parser::green::GreenNode::Internal { children, .. } => {
                for c in children.iter().rev() {
                    stack.push(*c);
                }
            }
        }
    }
}

pub fn lex(req: &Value) -> Value {
    let text = req["text"].as_str().unwrap_or("").to_string();
    let t2 = text.clone();
    let r = catch_unwind(AssertUnwindSafe(move || {
        let tokens = parser::tokenize(&t2);
        let pre = parser::preparse(&tokens);
        let toks: Vec<Value> = tokens
            .iter()
            .map(|t| {
                json!([
                    format!("{:?}", t.kind),
                    t.start,
                    t.length,
                    t.is_trivia(),
                    t.kind == TokenKind::Eof
                ])
            })
            .collect();
        let nontrivia = pre.token_indices.clone();
        let mut leading: Vec<Value> = vec![];
        let mut trailing: Vec<Value> = vec![];
        let mut lk: Vec<_> = pre.leading_trivia_map.iter().collect();
        lk.sort();
        for (k, v) in lk {
            leading.push(json!([k, v]));
        }
        let mut tk: Vec<_> = pre.trailing_trivia_map.iter().collect();
        tk.sort();
        for (k, v) in tk {
            trailing.push(json!([k, v]));
        }
        let (root, arena, _tokens, errors) = parser::parse_cst(tokens, &pre);
        let mut lv = vec![];
        leaves(&arena, root, &mut lv);
        json!({"toks": toks, "nontrivia": nontrivia, "leading": leading, "trailing": trailing,
               "leaves": lv, "nerr": errors.len()})
    }));
    let bounds: Vec<usize> = (0..=text.len()).filter(|i| text.is_char_boundary(*i)).collect();
    match r {
        Ok(mut v) => {
            let m = v.as_object_mut().unwrap();
            m.insert("id".into(), req["id"].clone());
            m.insert("len".into(), json!(text.len()));
            m.insert("bounds".into(), json!(bounds));
            v
        }
        Err(e) => json!({"id": req["id"], "panic": crate::panic_msg(e), "len": text.len(), "bounds": bounds,
                         "loc": crate::LAST_PANIC_LOC.with(|l| l.borrow().clone())}),
    }
}

/// Run `f` in a thread with a 2 MiB stack; returns Err(message) on panic.
fn small_stack<T: Send + 'static>(f: impl FnOnce() -> T + Send + 'static) -> Result<T, String> {
    let h = std::thread::Builder::new()
        .stack_size(2 << 20)
        .spawn(move || {
            std::panic::catch_unwind(AssertUnwindSafe(f)).map_err(|e| {
                format!(
                    "{} @ {}",
                    crate::panic_msg(e),
                    crate::LAST_PANIC_LOC.with(|l| l.borrow().clone())
                )
            })
        })
        .unwrap();
    match h.join() {
        Ok(r) => r,
        Err(_) => Err("thread died".into()),
    }
}

fn spans_json(errs: &[Box<dyn mimium_lang::utils::error::ReportableError>]) -> Value {
    Value::Array(
        errs.iter()
            .flat_map(|e| e.get_labels())
            .map(|(loc, _)| json!([loc.span.start, loc.span.end]))
            .collect(),
    )
}

pub fn front(req: &Value) -> Value {
    use mimium_lang::compiler::parser::{parse_to_expr, tokenize};
    let text = req["text"].as_str().unwrap_or("").to_string();
    let apis: Vec<String> = req["apis"]
        .as_array()
        .map(|a| a.iter().filter_map(|v| v.as_str().map(String::from)).collect())
        .unwrap_or_else(|| {
            ["tokenize", "parse", "analyze", "bytecode", "wasm"]
                .iter()
                .map(|s| s.to_string())
                .collect()
        });
    let bounds: Vec<usize> = (0..=text.len()).filter(|i| text.is_char_boundary(*i)).collect();
    let mut res = serde_json::Map::new();
    for api in apis {
        let t = text.clone();
        let r: Result<Value, String> = match api.as_str() {
            "tokenize" => small_stack(move || {
                let toks = tokenize(&t);
                json!({"kind": "ok", "n": toks.len(), "spans": []})
            }),
            "parse" => small_stack(move || {
                let (_e, _mi, errs) = parse_to_expr(&t, None);
                json!({"kind": if errs.is_empty() {"ok"} else {"diags"}, "n": errs.len(), "spans": spans_json(&errs)})
            }),
            "analyze" => small_stack(move || {
                let diags = mimium_language_server::verif_analyze(&t);
                json!({"kind": if diags.is_empty() {"ok"} else {"diags"}, "n": diags.len(),
                       "spans": diags})
            }),
            "bytecode" => small_stack(move || {
                let mut ctx = mimium_lang::ExecContext::new([].into_iter(), None, mimium_lang::Config::default());
                ctx.add_system_plugin(mimium_scheduler::get_default_scheduler_plugin());
                ctx.prepare_compiler();
                match ctx.get_compiler().unwrap().emit_bytecode(&t) {
                    Ok(_) => json!({"kind": "ok", "n": 0, "spans": []}),
                    Err(e) => json!({"kind": "diags", "n": e.len(), "spans": spans_json(&e)}),
                }
            }),
            "wasm" => small_stack(move || {
                let mut ctx = mimium_lang::ExecContext::new([].into_iter(), None, mimium_lang::Config::default());
                ctx.add_system_plugin(mimium_scheduler::get_default_scheduler_plugin());
                ctx.prepare_compiler();
                match ctx.get_compiler().unwrap().emit_wasm(&t) {
                    Ok(_) => json!({"kind": "ok", "n": 0, "spans": []}),
                    Err(e) => json!({"kind": "diags", "n": e.len(), "spans": spans_json(&e)}),
                }
            }),
            other => Err(format!("unknown api {other}")),
        };
        res.insert(
            api,
            match r {
                Ok(v) => v,
                Err(m) => json!({"kind": "panic", "msg": m}),
            },
        );
    }
    json!({"id": req["id"], "len": text.len(), "bounds": bounds, "res": res})
}

//! Runtime construction and stepping for both backends, following the CLI's
//! `run_file` path (VM: ExecContext + LocalBufferDriver plugin + scheduler;
//! WASM: emit_mir -> WasmGenerator -> WasmEngine -> WasmDspRuntime).
use std::path::PathBuf;
use std::sync::{
    Arc,
    atomic::{AtomicU64, Ordering},
};

use mimium_audiodriver::{
    backends::local_buffer::LocalBufferDriver,
    driver::{Driver, RuntimeData, VmDspRuntime},
};
use mimium_lang::{
    Config, ExecContext,
    compiler::wasmgen::WasmGenerator,
    mir::StateType,
    plugin::{ExtFunTypeInfo, Plugin},
    runtime::{
        DspRuntime, ProgramPayload, Time,
        wasm::{
            WasmPluginFnMap,
            engine::{WasmDspRuntime, WasmEngine},
        },
    },
};
use serde_json::{Value, json};
use state_tree::tree::StateTreeSkeleton;

pub type Skel = StateTreeSkeleton<StateType>;

pub fn errs_to_json(errs: &[Box<dyn mimium_lang::utils::error::ReportableError>]) -> Value {
    let v: Vec<Value> = errs
        .iter()
        .map(|e| {
            let labels: Vec<Value> = e
                .get_labels()
                .iter()
                .map(|(loc, m)| json!({"lo": loc.span.start, "hi": loc.span.end, "msg": m, "path": loc.path.to_string_lossy()}))
                .collect();
            json!({"msg": e.get_message(), "labels": labels})
        })
        .collect();
    Value::Array(v)
}

/// Encode an f64: integers of modest size as JSON integers, everything else as
/// "x<16 hex digits>" of the bit pattern.
pub fn num(v: f64) -> Value {
    if v.is_finite() && v.fract() == 0.0 && v.abs() < 9.0e15 && !(v == 0.0 && v.is_sign_negative())
    {
        json!(v as i64)
    } else {
        json!(format!("x{:016x}", v.to_bits()))
    }
}
pub fn word(w: u64) -> Value {
    num(f64::from_bits(w))
}
pub fn denum(v: &Value) -> f64 {
    match v {
        Value::Number(n) => n.as_f64().unwrap(),
        Value::String(s) => {
            let s = s.strip_prefix('x').unwrap_or(s);
            f64::from_bits(u64::from_str_radix(s, 16).unwrap())
        }
        _ => panic!("bad number {v}"),
    }
}

pub fn skel_to_json(s: &Skel) -> Value {
    match s {
        StateTreeSkeleton::Delay { len } => json!({"k": "delay", "n": len}),
        StateTreeSkeleton::Mem(t) => json!({"k": "mem", "n": t.0}),
        StateTreeSkeleton::Feed(t) => json!({"k": "feed", "n": t.0}),
        StateTreeSkeleton::FnCall(ch) => {
            json!({"k": "fn", "ch": ch.iter().map(|c| skel_to_json(c)).collect::<Vec<_>>()})
        }
    }
}

pub enum Rt {
    Vm {
        ctx: ExecContext,
        rd: RuntimeData,
        count: Arc<AtomicU64>,
    },
    Wasm {
        ctx: ExecContext,
        rt: WasmDspRuntime,
        ext_fns: Vec<ExtFunTypeInfo>,
        plugin_fns: Option<WasmPluginFnMap>,
        skel: Option<Skel>,
        t: u64,
    },
}

pub enum BuildErr {
    Reject(Value),
    Other(String),
}

fn mkpath(path: &Option<String>) -> Option<PathBuf> {
    path.as_ref().map(PathBuf::from)
}

pub fn build_vm(src: &str, path: &Option<String>, sched: bool) -> Result<Rt, BuildErr> {
    let driver = LocalBufferDriver::new(0);
    let count = driver.count.clone();
    let plug: Box<dyn Plugin> = Box::new(driver.get_as_plugin());
    let mut ctx = ExecContext::new([plug].into_iter(), mkpath(path), Config::default());
    if sched {
        ctx.add_system_plugin(mimium_scheduler::get_default_scheduler_plugin());
    }
    ctx.prepare_machine(src)
        .map_err(|e| BuildErr::Reject(errs_to_json(&e)))?;
    let _ = ctx.run_main();
    let mut rd = RuntimeData::try_from(&mut ctx).map_err(|_| BuildErr::Other("no vm".into()))?;
    rd.runtime.set_sample_rate(48000.0);
    Ok(Rt::Vm { ctx, rd, count })
}

pub fn build_wasm(src: &str, path: &Option<String>, sched: bool) -> Result<Rt, BuildErr> {
    let mut ctx = ExecContext::new([].into_iter(), mkpath(path), Config::default());
    if sched {
        ctx.add_system_plugin(mimium_scheduler::get_default_scheduler_plugin());
    }
    ctx.prepare_compiler();
    let ext_fns = ctx.get_extfun_types();
    let mir = ctx
        .get_compiler()
        .unwrap()
        .emit_mir(src)
        .map_err(|e| BuildErr::Reject(errs_to_json(&e)))?;
    let io = mir.get_dsp_iochannels();
    let skel = mir.get_dsp_state_skeleton().cloned();
    let bytes = WasmGenerator::new(Arc::new(mir), &ext_fns)
        .generate()
        .map_err(|e| BuildErr::Reject(json!([{"msg": format!("wasmgen: {e}"), "labels": []}])))?;
    let plugin_fns = ctx.freeze_wasm_plugin_fns();
    let workers = ctx.generate_wasm_audioworkers();
    let mut eng = WasmEngine::new(&ext_fns, plugin_fns.clone())
        .map_err(|e| BuildErr::Other(format!("engine: {e}")))?;
    eng.load_module(&bytes)
        .map_err(|e| BuildErr::Other(format!("load: {e}")))?;
    let mut rt = WasmDspRuntime::new(eng, io, skel.clone());
    rt.set_wasm_audioworkers(workers);
    rt.set_sample_rate(48000.0);
    ctx.run_wasm_on_init(rt.engine_mut());
    rt.run_main()
        .map_err(|e| BuildErr::Other(format!("main: {e}")))?;
    ctx.run_wasm_after_main(rt.engine_mut());
    Ok(Rt::Wasm {
        ctx,
        rt,
        ext_fns,
        plugin_fns,
        skel,
        t: 0,
    })
}

impl Rt {
    pub fn io(&self) -> Option<(u32, u32)> {
        let io = match self {
            Rt::Vm { rd, .. } => rd.io_channels(),
            Rt::Wasm { rt, .. } => rt.io_channels(),
        };
        io.map(|i| (i.input, i.output))
    }
    pub fn skeleton(&self) -> Option<Skel> {
        match self {
            Rt::Vm { rd, .. } => rd
                .downcast_runtime_ref::<VmDspRuntime>()
                .and_then(|r| r.vm.prog.get_dsp_state_skeleton().cloned()),
            Rt::Wasm { skel, .. } => skel.clone(),
        }
    }
    /// One sample: set inputs, run dsp at the runtime's own clock, return (rc, outputs).
    pub fn tick(&mut self, input: &[f64]) -> (i64, Vec<f64>) {
        match self {
            Rt::Vm { rd, count, .. } => {
                let now = count.load(Ordering::Relaxed);
                if !input.is_empty() {
                    rd.set_input(input);
                }
                let rc = rd.run_dsp(Time(now));
                let och = rd.io_channels().map_or(0, |io| io.output as usize);
                let out = rd.get_output(och).to_vec();
                count.store(now + 1, Ordering::Relaxed);
                (rc, out)
            }
            Rt::Wasm { rt, t, .. } => {
                if !input.is_empty() {
                    rt.set_input(input);
                }
                let rc = rt.run_dsp(Time(*t));
                let och = rt.io_channels().map_or(0, |io| io.output as usize);
                let out = rt.get_output(och).to_vec();
                *t += 1;
                (rc, out)
            }
        }
    }
    /// The flat dsp state words and the cursor of the global storage.
    pub fn words(&mut self) -> (usize, Vec<u64>) {
        match self {
            Rt::Vm { rd, .. } => {
                let r = rd.downcast_runtime_ref::<VmDspRuntime>().unwrap();
                let (pos, w) = r.vm.verif_global_state();
                (pos, w.to_vec())
            }
            Rt::Wasm { rt, .. } => {
                let w = rt
                    .engine_mut()
                    .get_global_state_data()
                    .map(|d| d.to_vec())
                    .unwrap_or_default();
                let pos = rt
                    .engine_mut()
                    .current_module_mut()
                    .and_then(|m| m.get_runtime_state_mut())
                    .map_or(0, |s| s.verif_global_state_pos());
                (pos, w)
            }
        }
    }
    /// Live object counts: VM (closures, heap objects, 0); WASM (heap, closure states, arrays).
    pub fn counts(&mut self) -> (usize, usize, usize) {
        match self {
            Rt::Vm { rd, .. } => {
                let r = rd.downcast_runtime_ref::<VmDspRuntime>().unwrap();
                (r.vm.closures.len(), r.vm.heap.len(), 0)
            }
            Rt::Wasm { rt, .. } => rt
                .engine_mut()
                .current_module_mut()
                .and_then(|m| m.get_runtime_state_mut())
                .map_or((0, 0, 0), |s| s.verif_store_sizes()),
        }
    }
    /// Hot swap to `src` the way the CLI does. Returns "ok", "refused" or the diagnostics.
    pub fn swap(&mut self, src: &str) -> Value {
        match self {
            Rt::Vm { ctx, rd, .. } => match ctx.get_compiler().unwrap().emit_bytecode(src) {
                Ok(p) => {
                    let ok = rd.resume_with_program(ProgramPayload::VmProgram(p));
                    json!({"ok": ok})
                }
                Err(e) => json!({"ok": false, "diags": errs_to_json(&e)}),
            },
            Rt::Wasm {
                ctx,
                rt,
                ext_fns,
                plugin_fns,
                skel,
                ..
            } => match ctx.get_compiler().unwrap().emit_wasm(src) {
                Ok(w) => {
                    let payload = mimium_cli::verif_prepare_wasm_payload(
                        w.bytes,
                        skel.clone(),
                        w.dsp_state_skeleton.clone(),
                        ext_fns,
                        plugin_fns.clone(),
                    );
                    match payload {
                        Ok(p) => {
                            let ok = rt.try_hot_swap(p);
                            if ok {
                                *skel = w.dsp_state_skeleton;
                            }
                            json!({"ok": ok})
                        }
                        Err(e) => json!({"ok": false, "prepare_error": e}),
                    }
                }
                Err(e) => json!({"ok": false, "diags": errs_to_json(&e)}),
            },
        }
    }
}

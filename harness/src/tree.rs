//! `tree`: the real state-tree migration on a pair of layouts.
//! in : {id, old: T, new: T}   T = {k:"delay"|"mem"|"feed", n} | {k:"fn", ch:[T]}
//! out: {id, plan: null | {total, patches:[[src,dst,size]] (sorted)}, applied: [..] | null,
//!       old_size, new_size, panic?}
//! `applied` is the result of the real apply on tagged storage old[i] = i+1.
use serde_json::{Value, json};
use state_tree::tree::StateTreeSkeleton as S;
use std::panic::{AssertUnwindSafe, catch_unwind};

pub fn to_tree(v: &Value) -> S<u64> {
    match v["k"].as_str().unwrap() {
        "delay" => S::Delay {
            len: v["n"].as_u64().unwrap(),
        },
        "mem" => S::Mem(v["n"].as_u64().unwrap()),
        "feed" => S::Feed(v["n"].as_u64().unwrap()),
        "fn" => S::FnCall(
            v["ch"]
                .as_array()
                .map(|a| a.iter().map(|c| Box::new(to_tree(c))).collect())
                .unwrap_or_default(),
        ),
        k => panic!("bad tree kind {k}"),
    }
}

pub fn tree(req: &Value) -> Value {
    let old = to_tree(&req["old"]);
    let new = to_tree(&req["new"]);
    let old_size = old.total_size() as usize;
    let new_size = new.total_size() as usize;
    let tagged: Vec<u64> = (1..=old_size as u64).collect();
    let r = catch_unwind(AssertUnwindSafe(|| {
        let plan = state_tree::build_state_storage_patch_plan(old.clone(), new.clone());
        let applied = plan
            .as_ref()
            .map(|p| state_tree::apply_state_storage_patch_plan(&tagged, p));
        // the one-call API must agree with plan-then-apply
        let direct = state_tree::update_state_storage(&tagged, old.clone(), new.clone())
            .ok()
            .flatten();
        (plan, applied, direct)
    }));
    match r {
        Ok((plan, applied, direct)) => {
            let planj = plan.map(|p| {
                let mut ps: Vec<[usize; 3]> = p
                    .patches
                    .iter()
                    .map(|c| [c.src_addr, c.dst_addr, c.size])
                    .collect();
                ps.sort();
                json!({"total": p.total_size, "patches": ps})
            });
            json!({"id": req["id"], "plan": planj, "applied": applied, "direct": direct,
                   "old_size": old_size, "new_size": new_size})
        }
        Err(e) => json!({"id": req["id"], "panic": crate::panic_msg(e),
                         "loc": crate::LAST_PANIC_LOC.with(|l| l.borrow().clone()),
                         "old_size": old_size, "new_size": new_size}),
    }
}

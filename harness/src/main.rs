//! mmverif — conformance harness binding the TLA+ specification suite to
//! mimium-rs. One subcommand per kind of replay / recording; ndjson in/out.
//! Every call into code under test is wrapped in catch_unwind: a panic is
//! data. Each result line is flushed at once so that a dying process (abort,
//! stack overflow, segfault) is attributable to the first request without a
//! result.
mod rt;
mod run;
mod tree;
mod front;
mod misc;
mod live;

use std::io::{BufRead, Write};

pub fn panic_msg(e: Box<dyn std::any::Any + Send>) -> String {
    if let Some(s) = e.downcast_ref::<&str>() {
        s.to_string()
    } else if let Some(s) = e.downcast_ref::<String>() {
        s.clone()
    } else {
        "non-string panic".into()
    }
}

thread_local! {
    pub static LAST_PANIC_LOC: std::cell::RefCell<String> = const { std::cell::RefCell::new(String::new()) };
}

fn main() {
    let args: Vec<String> = std::env::args().collect();
    // The live-coding loop compiles WASM in a subprocess of the *current executable*
    // (`<exe> <file> --backend=wasm --emit-wasm`): when spawned that way this binary is the CLI.
    if args.iter().any(|a| a == "--emit-wasm") {
        if let Some(home) = std::env::var_os("MMVERIF_HOME") {
            // the CLI creates its config file under $HOME on first use: keep that inside the work directory
            unsafe { std::env::set_var("HOME", home) };
        }
        match mimium_cli::lib_main() {
            Ok(()) => std::process::exit(0),
            Err(e) => {
                eprintln!("{e}");
                std::process::exit(1);
            }
        }
    }
    if args.len() < 2 {
        eprintln!("usage: mmverif <cmd> [in.ndjson] (reads stdin when absent)");
        std::process::exit(2);
    }
    std::panic::set_hook(Box::new(|info| {
        let loc = info
            .location()
            .map(|l| format!("{}:{}", l.file(), l.line()))
            .unwrap_or_default();
        LAST_PANIC_LOC.with(|l| *l.borrow_mut() = loc);
    }));
    let cmd = args[1].as_str();
    let input: Box<dyn BufRead + Send> = match args.get(2) {
        Some(p) if p != "-" => Box::new(std::io::BufReader::new(
            std::fs::File::open(p).expect("open input"),
        )),
        _ => Box::new(std::io::BufReader::new(std::io::stdin())),
    };
    // results go to the file named by the third argument when given (code under test may print to stdout)
    let outfile = args.get(3).map(|p| std::fs::File::create(p).expect("create output"));
    // Big stack: deep recursion in code under test on deep inputs must not kill the harness
    // except where the stack bound itself is what is being checked (front uses its own threads).
    let cmd = cmd.to_string();
    let child = std::thread::Builder::new()
        .stack_size(256 << 20)
        .spawn(move || {
            for line in input.lines() {
                let line = line.expect("read");
                if line.trim().is_empty() {
                    continue;
                }
                let req: serde_json::Value = match serde_json::from_str(&line) {
                    Ok(v) => v,
                    Err(e) => {
                        eprintln!("bad json: {e}");
                        std::process::exit(2);
                    }
                };
                let res = match cmd.as_str() {
                    "run" => run::run(&req),
                    "tree" => tree::tree(&req),
                    "lex" => front::lex(&req),
                    "front" => front::front(&req),
                    "fmt" => misc::fmt(&req),
                    "ffi" => misc::ffi(&req),
                    "compile" => misc::compile(&req),
                    "threads" => misc::threads(&req),
                    "rust" => misc::rust(&req),
                    "live" => live::live(&req),
                    other => {
                        eprintln!("unknown command {other}");
                        std::process::exit(2);
                    }
                };
                let mut line = serde_json::to_vec(&res).unwrap();
                line.push(b'\n');
                match &outfile {
                    Some(f) => {
                        let mut f = f;
                        f.write_all(&line).unwrap();
                        f.flush().unwrap();
                    }
                    None => {
                        let mut o = std::io::stdout().lock();
                        o.write_all(&line).unwrap();
                        o.flush().unwrap();
                    }
                }
            }
        })
        .unwrap();
    if child.join().is_err() {
        std::process::exit(3);
    }
}

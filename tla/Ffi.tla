--------------------------------- MODULE Ffi ---------------------------------
(***************************************************************************)
(* The plugin FFI encoding as a lossless channel (property C20).           *)
(*                                                                         *)
(* Universe of macro-stage values and of types, built recursively up to a  *)
(* depth / width bound; numbers are symbolic (the harness maps them to bit *)
(* patterns: 0, -0, 1.5, -1, 2^53+1, the smallest denormal, +-inf, a NaN   *)
(* with payload), strings include the empty string, non-ASCII text and an  *)
(* embedded NUL.                                                           *)
(*                                                                         *)
(* Contract: Send(v) either refuses or puts v on the wire; Recv yields     *)
(* what was put on the wire.  A value made only of numbers, strings,       *)
(* arrays, tuples, records, tagged unions, code and unit must be accepted  *)
(* and decode to itself; anything that is accepted must decode to itself   *)
(* (never silently altered).  The same for types; compiler-internal type   *)
(* states (inference variables, type schemes) are refused.                 *)
(***************************************************************************)
EXTENDS Integers, Sequences, FiniteSets, TLC, Json

CONSTANTS Depth,       \* 1 | 2
          Emit

Nums == {"0000000000000000", "8000000000000000", "3ff8000000000000", "bff0000000000000",
         "4340000000000001", "0000000000000001", "7ff0000000000000", "fff0000000000000",
         "7ff8000000000abc"}
Strs == {"", "a", "é", "あ😀", "nul\\u0000x"}
Unit == [k |-> "unit"]
Num(b) == [k |-> "num", b |-> b]
Str(s) == [k |-> "str", s |-> s]
Code(c) == [k |-> "code", c |-> c]
Opaque == {[k |-> "closure"], [k |-> "fixpoint"], [k |-> "extfn"], [k |-> "ctor"], [k |-> "error"]}

V0 == {Unit} \cup {Num(b) : b \in Nums} \cup {Str(s) : s \in Strs} \cup {Code(42)} \cup Opaque
Seqs(S, n) == UNION {[1..k -> S] : k \in 0..n}
Agg(S) == {[k |-> "arr", es |-> es] : es \in Seqs(S, 2)}
          \cup {[k |-> "tup", es |-> es] : es \in Seqs(S, 2)}
          \cup {[k |-> "rec", fs |-> fs] : fs \in UNION {[1..n -> {[n |-> nm, v |-> v] : nm \in {"a", "é"}, v \in S}] : n \in 0..2}}
          \cup {[k |-> "tag", t |-> t, v |-> v] : t \in {0, 3}, v \in S}
          \cup {[k |-> "store", v |-> v] : v \in S}
(* a small core for the second level *)
Core == {Unit, Num("8000000000000000"), Num("7ff8000000000abc"), Str(""), Str("あ😀"), Code(42),
         [k |-> "closure"], [k |-> "error"],
         [k |-> "arr", es |-> <<>>], [k |-> "tup", es |-> <<>>], [k |-> "rec", fs |-> <<>>],   \* the empty aggregates
         [k |-> "tup", es |-> <<Unit>>],
         [k |-> "rec", fs |-> <<[n |-> "é", v |-> Num("0000000000000001")]>>],
         [k |-> "tag", t |-> 3, v |-> Str("a")], [k |-> "store", v |-> Unit]}
(* a smaller core of nested values for the third level: empty aggregates in payload / element / field position *)
Core2 == {[k |-> "tag", t |-> 3, v |-> [k |-> "tup", es |-> <<>>]], [k |-> "tag", t |-> 0, v |-> [k |-> "tag", t |-> 3, v |-> Unit]],
          [k |-> "arr", es |-> <<[k |-> "tup", es |-> <<>>]>>], [k |-> "tup", es |-> <<[k |-> "arr", es |-> <<>>], Unit>>],
          [k |-> "rec", fs |-> <<[n |-> "a", v |-> [k |-> "rec", fs |-> <<>>]]>>], [k |-> "tup", es |-> <<[k |-> "tup", es |-> <<Unit>>]>>]}
Values == V0 \cup Agg(V0) \cup (IF Depth >= 2 THEN Agg(Core) ELSE {}) \cup (IF Depth >= 3 THEN Agg(Core2) ELSE {})

RECURSIVE Sendable(_)
Sendable(v) ==
  CASE v.k \in {"unit", "num", "str", "code"} -> TRUE
    [] v.k \in {"arr", "tup"} -> \A i \in 1..Len(v.es) : Sendable(v.es[i])
    [] v.k = "rec" -> \A i \in 1..Len(v.fs) : Sendable(v.fs[i].v)
    [] v.k = "tag" -> Sendable(v.v)
    [] OTHER -> FALSE

(* types *)
Prim(p) == [k |-> "prim", p |-> p]
T0 == {Prim(p) : p \in {"unit", "int", "numeric", "string"}}
        \cup {[k |-> "any"], [k |-> "failure"], [k |-> "unknown"], [k |-> "alias", s |-> "Foo"]}
        \cup {[k |-> "intermediate"], [k |-> "scheme"]}
None == [k |-> "none"]
TAgg(S) == {[k |-> "arr", t |-> t] : t \in S} \cup {[k |-> "ref", t |-> t] : t \in S}
           \cup {[k |-> "code", t |-> t] : t \in S} \cup {[k |-> "boxed", t |-> t] : t \in S}
           \cup {[k |-> "tup", ts |-> ts] : ts \in Seqs(S, 2)}
           \cup {[k |-> "union", ts |-> ts] : ts \in Seqs(S, 2)}
           \cup {[k |-> "fn", a |-> a, r |-> r] : a \in S, r \in S}
           \cup {[k |-> "rec", fs |-> fs] : fs \in UNION {[1..n -> {[n |-> nm, t |-> t, d |-> d] :
                                                    nm \in {"a", "é"}, t \in S, d \in BOOLEAN}] : n \in 0..1}}
           \cup {[k |-> "usum", name |-> "T", vs |-> vs] :
                   vs \in UNION {[1..n -> {[n |-> nm, t |-> t] : nm \in {"A", "B"}, t \in S \cup {None}}] : n \in 0..2}}
TCore == {Prim("numeric"), Prim("unit"), [k |-> "tup", ts |-> <<>>], [k |-> "rec", fs |-> <<>>],
          [k |-> "fn", a |-> Prim("numeric"), r |-> Prim("numeric")],
          [k |-> "usum", name |-> "T", vs |-> <<[n |-> "A", t |-> None]>>], [k |-> "boxed", t |-> Prim("int")]}
Types == T0 \cup TAgg(T0 \ {[k |-> "intermediate"], [k |-> "scheme"]}) \cup (IF Depth >= 2 THEN TAgg(TCore) ELSE {})
TypeSendable(t) == t.k \notin {"intermediate", "scheme"}

---------------------------------------------------------------------------
(* the channel *)
VARIABLES phase, item, wire, out
vars == <<phase, item, wire, out>>
Init == phase = "idle" /\ item = Unit /\ wire = <<>> /\ out = <<>>
PickValue == phase = "idle" /\ phase' = "value" /\ item' \in Values /\ UNCHANGED <<wire, out>>
PickType == phase = "idle" /\ phase' = "type" /\ item' \in Types /\ UNCHANGED <<wire, out>>
Send == /\ phase \in {"value", "type"}
        /\ IF (phase = "value" /\ Sendable(item)) \/ (phase = "type" /\ TypeSendable(item))
           THEN wire' = <<item>> /\ phase' = "sent"
           ELSE wire' = <<>> /\ phase' = "refused"
        /\ UNCHANGED <<item, out>>
Recv == phase = "sent" /\ out' = wire /\ phase' = "received" /\ UNCHANGED <<item, wire>>
Next == PickValue \/ PickType \/ Send \/ Recv
Spec == Init /\ [][Next]_vars

Lossless == phase = "received" => out = <<item>>
InvEmit == (Emit /\ phase \in {"value", "type"}) =>
   PrintT(<<"REPLAY", ToJson(IF phase = "value" THEN [v |-> item, sendable |-> Sendable(item)]
                                                 ELSE [t |-> item, sendable |-> TypeSendable(item)])>>)
=============================================================================

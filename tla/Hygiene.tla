------------------------------ MODULE Hygiene ------------------------------
(***************************************************************************)
(* C10: macro expansion respects lexical scope across stages.              *)
(*                                                                         *)
(* A matrix of small programs, every cell explored by TLC.  A macro        *)
(*   fn m(c){ `{ <template binding B around / beside the hole $c> } }      *)
(* is used at a site that binds A and passes code mentioning A:            *)
(*                                                                         *)
(*   bf   binder form of the template: let, tuple let, lambda parameter,   *)
(*        or a let beside the hole (not enclosing it)                      *)
(*   B    the name the template binds          (two-name alphabet {t, u})  *)
(*   A    the name the use site binds          (so all coincidences occur) *)
(*   af   the spliced code: A itself, an expression in A, or code that     *)
(*        binds A again for itself                                         *)
(*   uf   how the use site binds A: let, function parameter, lambda        *)
(*        parameter; and whether A is used next to the expansion too       *)
(*   sg   f!(..) or $(f(..))                                               *)
(*                                                                         *)
(* The meaning of a cell is Lang on StagingCore's (hygienic) expansion.    *)
(* The property is RenamingInvariant: the cell with B = t and the cell     *)
(* with B = u, all other coordinates equal, produce the same samples.      *)
(* Under Mode = "name_based" TLC finds the violation (non-vacuity).        *)
(***************************************************************************)
EXTENDS StagingCore, Json

Names == {"t", "u"}
BForms == {"let", "lett", "lam", "beside"}
AForms == {"var", "expr", "rebind"}
UForms == {"let", "param", "lam", "letuse"}
Sugar == {"bang", "splice"}
Cells == [bf : BForms, B : Names, A : Names, af : AForms, uf : UForms, sg : Sugar]

VARIABLES cell, phase
vars == <<cell, phase>>
Init == phase = 0 /\ cell = CHOOSE c \in Cells : TRUE
Pick == phase = 0 /\ phase' = 1 /\ cell' \in Cells
Spec == Init /\ [][Pick]_vars

HoleC == Splice(MV("c"))
Template(bf, B) ==
  CASE bf = "let"    -> Let(B, Lit(10), Bin("+", HoleC, Var(B)))
    [] bf = "lett"   -> LetT(<<B, "w">>, Tup(<<Lit(10), Lit(20)>>), Bin("+", Bin("+", HoleC, Var(B)), Var("w")))
    [] bf = "lam"    -> App(Lam(<<B>>, Bin("+", HoleC, Var(B))), <<Lit(10)>>)
    [] bf = "beside" -> Bin("+", HoleC, Let(B, Lit(10), Bin("*", Var(B), Lit(2))))
Arg(af, A) ==
  CASE af = "var"    -> Var(A)
    [] af = "expr"   -> Bin("+", Bin("*", Var(A), Lit(2)), NowE)
    [] af = "rebind" -> Bin("+", Var(A), Let(A, Lit(7), Bin("*", Var(A), Lit(3))))
Use(sg, af, A) == IF sg = "bang" THEN MacroApp("m", <<MQ(Arg(af, A))>>)
                  ELSE Splice(MCall("m", <<MQ(Arg(af, A))>>))
Site(c) ==
  CASE c.uf = "let"    -> Let(c.A, Lit(5), Use(c.sg, c.af, c.A))
    [] c.uf = "letuse" -> Let(c.A, Lit(5), Bin("+", Bin("*", Use(c.sg, c.af, c.A), Lit(100)), Var(c.A)))
    [] c.uf = "lam"    -> App(Lam(<<c.A>>, Use(c.sg, c.af, c.A)), <<Lit(5)>>)
    [] c.uf = "param"  -> Call("h", <<Lit(5)>>)
StagedCell(c) ==
  LET dsp == [ps |-> <<>>, self |-> FALSE, b |-> Site(c)]
      h   == [ps |-> <<c.A>>, self |-> FALSE, b |-> Use(c.sg, c.af, c.A)]
  IN [nout |-> 1, globals |-> <<>>,
      macros |-> [m \in {"m"} |-> [ps |-> <<"c">>, b |-> MQ(Template(c.bf, c.B))]],
      fns |-> IF c.uf = "param" THEN [f \in {"dsp", "h"} |-> IF f = "h" THEN h ELSE dsp]
              ELSE [f \in {"dsp"} |-> dsp]]

NS == 3
Outs(c) == Outputs(ExpandProg(StagedCell(c)), [i \in 1..NS |-> 0], NS).outs
Other(n) == IF n = "t" THEN "u" ELSE "t"

(* C10 on the specification *)
RenamingInvariant == phase = 1 => Outs(cell) = Outs([cell EXCEPT !.B = Other(cell.B)])

Emit == phase = 1 =>
  PrintT(<<"REPLAY", ToJson([cell |-> cell, staged |-> StagedCell(cell),
                             expanded |-> ExpandProg(StagedCell(cell)), expect |-> Outs(cell),
                             coincide |-> (cell.A = cell.B)])>>)
=============================================================================

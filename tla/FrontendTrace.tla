---------------------------- MODULE FrontendTrace ----------------------------
(***************************************************************************)
(* Contract of the front end and of the compile entry points (C04) as a    *)
(* trace specification.  A record is one text: {id, len, bounds, calls}    *)
(* with calls a sequence of [api, kind, spans, msg].  For every call there *)
(* are exactly two ways to return: ReturnOk and ReturnDiags(spans) with    *)
(* every span inside the text and on character boundaries.  There is no    *)
(* action for a panic, an abort or a timeout, so a trace that contains one *)
(* is not a behaviour of the specification; it is reported and the rest of *)
(* the trace is still checked.                                             *)
(***************************************************************************)
EXTENDS Integers, Sequences, FiniteSets, TLC, Json, IOUtils

Rec == ndJsonDeserialize(IOEnv.TRACE)
VARIABLES l, c
vars == <<l, c>>
R == Rec[l]
Init == l = 1 /\ c = 1
Bounds == {R.bounds[k] : k \in 1..Len(R.bounds)}

SpanOk(s) == /\ s[1] >= 0 /\ s[1] <= s[2] /\ s[2] <= R.len
             /\ s[1] \in Bounds /\ s[2] \in Bounds

NextRecord == /\ l' = l + 1 /\ c' = 1
              /\ (IF l = Len(Rec) THEN PrintT(<<"CONSUMED", ToJson([n |-> Len(Rec)])>>) ELSE TRUE)
Fail(what) == PrintT(<<"FAIL", ToJson([id |-> R.id, api |-> R.calls[c].api, what |-> what])>>)

ReturnOk == R.calls[c].kind = "ok"
ReturnDiags == /\ R.calls[c].kind = "diags"
               /\ \A k \in 1..Len(R.calls[c].spans) : SpanOk(R.calls[c].spans[k])

Call ==
  /\ l <= Len(Rec)
  /\ IF c > Len(R.calls) THEN NextRecord
     ELSE IF ReturnOk \/ ReturnDiags THEN c' = c + 1 /\ l' = l
     ELSE /\ Fail(IF R.calls[c].kind = "diags" THEN "diagnostic span outside the text or off a character boundary"
                  ELSE R.calls[c].kind \o ": " \o R.calls[c].msg)
          /\ NextRecord
Spec == Init /\ [][Call]_vars
=============================================================================

SPECIFICATION SpecEdits
CONSTANTS
  Universe = "small"
  Emit = FALSE
  MaxEdits = 1
  BacktrackMode = "table"
  ScoreMode = "weight"
INVARIANT InvWellFormed
INVARIANT InvSurvivors1
INVARIANT InvCoverDel
INVARIANT InvCoverIns
CHECK_DEADLOCK FALSE

------------------------------ MODULE Lockstep ------------------------------
(***************************************************************************)
(* Lock-step trace specification: two executions of the same driver        *)
(* history (compile; main; then per sample: set inputs, run dsp, read      *)
(* outputs and the flat state words) on two runtime instances must be      *)
(* indistinguishable at every step.  Used for                              *)
(*   C01  VM vs WASM,                                                      *)
(*   C06  hot-swapped instance vs uninterrupted twin,                      *)
(*   C16  transformed source vs original,                                  *)
(*   C09  staged program vs hand expansion,                                *)
(*   C18  generated Rust vs the VM (the generator may refuse).             *)
(* Values travel as strings of their bit patterns (NaN canonicalised), so  *)
(* equality here is bit equality.  The specification does not compute      *)
(* values: it states the relation between the two executions.              *)
(*                                                                         *)
(* Record: [id, a, b] with a, b = [status, nout, out, words] where out and *)
(* words are sequences (per sample) of sequences of strings; `words` may   *)
(* be the empty sequence when state words are not part of the comparison.  *)
(***************************************************************************)
EXTENDS Integers, Sequences, TLC, Json, IOUtils

Rec == ndJsonDeserialize(IOEnv.TRACE)

VARIABLES l, t
vars == <<l, t>>

R == Rec[l]
Init == l = 1 /\ t = 0

Fail(what) == PrintT(<<"FAIL", ToJson([id |-> R.id, at |-> t, what |-> what])>>)
NextRecord == /\ l' = l + 1 /\ t' = 0
              /\ (IF l = Len(Rec) THEN PrintT(<<"CONSUMED", ToJson([n |-> Len(Rec)])>>) ELSE TRUE)

(* C18: side b implements a subset of the language and may refuse a program; it may not do     *)
(* anything else differently (in particular it may not produce something that does not build)  *)
Subset == "subset" \in DOMAIN R /\ R.subset

(* compile + main: both accept (same channel count) or both refuse *)
Start ==
  /\ l <= Len(Rec) /\ t = 0
  /\ IF Subset /\ R.b.status = "refused" THEN NextRecord    \* b may decline programs outside its subset (C18)
     ELSE IF R.a.status # R.b.status THEN Fail("status") /\ NextRecord
     ELSE IF R.a.status # "ok" THEN NextRecord               \* refused / no dsp on both sides alike
     ELSE IF R.a.nout # R.b.nout THEN Fail("channels") /\ NextRecord
     ELSE IF Len(R.a.out) # Len(R.b.out) THEN Fail("length") /\ NextRecord
     ELSE IF Len(R.a.out) = 0 THEN NextRecord
     ELSE t' = 1 /\ l' = l

(* one sample on both instances *)
Tick ==
  /\ l <= Len(Rec) /\ t >= 1 /\ t <= Len(R.a.out)
  /\ IF R.a.out[t] # R.b.out[t] THEN Fail("output") /\ NextRecord
     ELSE IF R.cmpwords /\ R.a.words[t] # R.b.words[t] THEN Fail("state words") /\ NextRecord
     ELSE IF t = Len(R.a.out) THEN NextRecord
     ELSE t' = t + 1 /\ l' = l

Next == Start \/ Tick
Spec == Init /\ [][Next]_vars
=============================================================================

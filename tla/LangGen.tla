------------------------------ MODULE LangGen ------------------------------
(***************************************************************************)
(* Typed program generator for the core language.  A program body is built *)
(* token by token in prefix order; `pend` is the stack of typed slots that *)
(* still have to be filled, each carrying its own scope.  TLC explores     *)
(* every way of filling the slots within a token budget, so the complete   *)
(* programs reached are exactly the well-typed bodies of that size over    *)
(* the enabled productions.  Every complete program is evaluated with      *)
(* Lang.Eval and printed as one REPLAY line (program + inputs + expected   *)
(* outputs), which the harness replays on the real back ends.              *)
(*                                                                         *)
(* Types: "N" number, "P" pair of numbers, "F" closure number -> number,   *)
(* "R" record {p, q} of numbers, "A" array of three numbers.               *)
(* Clean-fragment switches (DESIGN.md §5) are constants; with a switch off *)
(* the generator does not produce the feature at all.                      *)
(***************************************************************************)
EXTENDS Lang, Json

CONSTANTS
  Budget,          \* maximal number of tokens of the generated body
  Template,        \* "dsp": the body is dsp's; "f": the body is f(x), dsp = f(1) + f(now)*100;
                   \* "clo": the body follows `let v = 1  let bump = |y| { v = v + y  v }` in dsp: a local that an
                   \* open closure reads and assigns, read and assigned by the body as well (left-to-right evaluation
                   \* of operands and arguments around calls that assign)
                   \* "hof": the body follows `let k = x + 1  let inner = |y| y * 10 + k` in dsp(x): a captured variable
                   \* and a capturing closure that the body hands to named functions and wraps in further closures;
                   \* "dsp2": the body is dsp's and is a pair (two output channels)
  UseInput,        \* dsp has one input channel bound to x
  Lits,            \* literal values
  Ops,             \* binary operators
  Helpers,         \* enabled helper functions of the prelude
  Prods,           \* enabled productions (token kinds)
  NSamples,        \* samples evaluated per program
  AllowStatefulInBranchArm,   \* known finding C05/C03: cursor bookkeeping of if arms
  AllowStatefulInLambda,      \* known finding C02: state of closures
  DelayTimes,                 \* "std" | "withzero": the <<n, t>> pairs of the delay production
                              \* (t = 0 is outside C02's statement but inside C01's)
  GlobalSet,                  \* "none" | "stateful": a global constant initialised through a stateful call
  AllowProjAsFeedResult       \* known findings C01: wasmgen mishandles a function whose result is
                              \* directly a tuple projection (invalid module when the function uses
                              \* `self`; a pointer instead of the value when a parameter is projected)

---------------------------------------------------------------------------
(* Prelude: helper functions, as ASTs, with their signatures. *)
Prelude == [
  counter |-> [ps |-> <<"inc">>, self |-> TRUE,  b |-> Bin("+", SelfE(0), Var("inc"))],
  lag     |-> [ps |-> <<"x">>,   self |-> FALSE, b |-> Mem(Var("x"))],
  acc7    |-> [ps |-> <<"x">>,   self |-> TRUE,  b |-> Bin("%", Bin("+", SelfE(0), Var("x")), Lit(7))],
  pacc    |-> [ps |-> <<"x">>,   self |-> TRUE,
               b |-> LetT(<<"a", "b">>, SelfE(<<0, 0>>),
                          Tup(<<Bin("+", Var("a"), Var("x")), Bin("+", Var("b"), Var("a"))>>))],
  dl      |-> [ps |-> <<"x">>,   self |-> FALSE, b |-> Delay(4, Var("x"), Lit(2))],
  nest    |-> [ps |-> <<"x">>,   self |-> FALSE,
               b |-> Bin("+", Call("counter", <<Var("x")>>),
                              Bin("*", Call("lag", <<Call("counter", <<Lit(1)>>)>>), Lit(10)))],
  dbl     |-> [ps |-> <<"x">>,   self |-> FALSE, b |-> Bin("*", Var("x"), Lit(2))],
  apply   |-> [ps |-> <<"g", "x">>, self |-> FALSE, b |-> App(Var("g"), <<Var("x")>>)],
  mk      |-> [ps |-> <<"k">>,   self |-> FALSE, b |-> Lam(<<"y">>, Bin("+", Var("y"), Var("k")))],
  swap    |-> [ps |-> <<"p">>,   self |-> FALSE,
               b |-> LetT(<<"a", "b">>, Var("p"), Tup(<<Var("b"), Var("a")>>))],
  \* records: a parameter of record type (annotated), a record result whose fields are written in
  \* non-alphabetical order; a recursive function (its recursion is bounded for every argument)
  pick    |-> [ps |-> <<"r">>,   self |-> FALSE, pty |-> <<"{p:float, q:float}">>,
               b |-> Bin("+", Bin("*", Fld(Var("r"), "q"), Lit(10)), Fld(Var("r"), "p"))],
  mkr     |-> [ps |-> <<"x">>,   self |-> FALSE,
               b |-> RecE(<<[n |-> "q", a |-> Var("x")], [n |-> "p", a |-> Bin("+", Var("x"), Lit(1))]>>)],
  sumto   |-> [ps |-> <<"n">>,   self |-> FALSE,
               b |-> If(Bin("&&", Bin(">", Var("n"), Lit(0)), Bin("<", Var("n"), Lit(5))),
                        Bin("+", Var("n"), Call("sumto", <<Bin("-", Var("n"), Lit(1))>>)), Lit(0))]
]
Sig == [
  counter |-> [args |-> <<"N">>, ret |-> "N", st |-> TRUE],
  lag     |-> [args |-> <<"N">>, ret |-> "N", st |-> TRUE],
  acc7    |-> [args |-> <<"N">>, ret |-> "N", st |-> TRUE],
  pacc    |-> [args |-> <<"N">>, ret |-> "P", st |-> TRUE],
  dl      |-> [args |-> <<"N">>, ret |-> "N", st |-> TRUE],
  nest    |-> [args |-> <<"N">>, ret |-> "N", st |-> TRUE],
  dbl     |-> [args |-> <<"N">>, ret |-> "N", st |-> FALSE],
  apply   |-> [args |-> <<"F", "N">>, ret |-> "N", st |-> FALSE],
  mk      |-> [args |-> <<"N">>, ret |-> "F", st |-> FALSE],
  swap    |-> [args |-> <<"P">>, ret |-> "P", st |-> FALSE],
  pick    |-> [args |-> <<"R">>, ret |-> "N", st |-> FALSE],
  mkr     |-> [args |-> <<"N">>, ret |-> "R", st |-> FALSE],
  sumto   |-> [args |-> <<"N">>, ret |-> "N", st |-> FALSE]
]

---------------------------------------------------------------------------
VARIABLES toks, pend, nv
vars == <<toks, pend, nv>>

(* a slot: type, variables in scope per type, assignable variables, whether *)
(* `self` may be used (and its type), whether stateful constructs may occur *)
Slot(ty, n, p, f, asg, slf, st) ==     \* r, a: record / array variables in scope
  [ty |-> ty, n |-> n, p |-> p, f |-> f, asg |-> asg, slf |-> slf, st |-> st, r |-> {}, a |-> {}]
With(s, ty) == [s EXCEPT !.ty = ty]

GlobalNames == IF GlobalSet = "stateful" THEN {"g1"} ELSE {}
Globals == IF GlobalSet = "stateful"
           THEN << [x |-> "g1", a |-> Bin("*", Call("counter", <<Lit(1)>>), Lit(100))] >>
           ELSE <<>>

RootSlot ==
  IF Template = "clo" THEN Slot("N", {"v"}, {}, {"bump"}, {"v"}, "none", TRUE) ELSE
  IF Template = "hof" THEN Slot("N", {"k"}, {}, {"inner"}, {}, "none", TRUE) ELSE
  IF Template = "dsp2" THEN Slot("P", (IF UseInput THEN {"x"} ELSE {}), {}, {}, {}, "none", TRUE) ELSE
  IF Template = "dsp"
  THEN Slot("N", (IF UseInput THEN {"x"} ELSE {}) \cup GlobalNames, {}, {}, {}, "none", TRUE)
  ELSE Slot("N", {"x"} \cup GlobalNames, {}, {}, {}, "N", TRUE)

Init == toks = <<>> /\ pend = <<RootSlot>> /\ nv = 0

MinSize(s) == CASE s.ty = "N" -> 1
                [] s.ty = "P" -> IF s.p # {} THEN 1 ELSE 3
                [] s.ty = "F" -> IF s.f # {} \/ "fnref" \in Prods THEN 1 ELSE 2
                [] s.ty = "R" -> IF s.r # {} THEN 1 ELSE 2
                [] s.ty = "A" -> IF s.a # {} THEN 1 ELSE 4
RECURSIVE SumMin(_)
SumMin(ps) == IF ps = <<>> THEN 0 ELSE MinSize(Head(ps)) + SumMin(Tail(ps))

Fresh(i) == "v" \o ToString(nv + i)

(* Put(tok, slots, k): emit tok, replace the head slot by `slots`, k new names *)
Put(tok, slots, k) ==
  /\ Len(toks) + 1 + SumMin(slots) + SumMin(Tail(pend)) <= Budget
  /\ toks' = Append(toks, tok)
  /\ pend' = slots \o Tail(pend)
  /\ nv' = nv + k

Has(k) == k \in Prods
NoSt(s) == [s EXCEPT !.st = FALSE]
Arm(s) == IF AllowStatefulInBranchArm THEN s ELSE NoSt(s)

FillN(s) ==
  \/ \E v \in Lits : Put([k |-> "lit", v |-> v], <<>>, 0)
  \/ \E x \in s.n : Put([k |-> "var", x |-> x], <<>>, 0)
  \/ Has("now") /\ Put([k |-> "now"], <<>>, 0)
  \/ s.slf = "N" /\ Put([k |-> "self"], <<>>, 0)
  \/ Has("neg") /\ Put([k |-> "neg"], <<s>>, 0)
  \/ \E op \in Ops : Put([k |-> "bin", op |-> op], <<s, s>>, 0)
  \/ Has("if") /\ Put([k |-> "if"], <<s, Arm(s), Arm(s)>>, 0)
  \/ Has("mem") /\ s.st /\ Put([k |-> "mem"], <<s>>, 0)
  \/ Has("delay") /\ s.st /\ \E nt \in (IF DelayTimes = "withzero"
                                              THEN {<<2, 1>>, <<3, 2>>, <<2, 0>>, <<3, 0>>}
                                              ELSE {<<2, 1>>, <<3, 2>>}) :
        Put([k |-> "delay", n |-> nt[1], t |-> nt[2]], <<s>>, 0)
  \/ \E f \in Helpers : /\ Sig[f].ret = "N" /\ (Sig[f].st => s.st)
                        /\ Put([k |-> "call", f |-> f],
                               [i \in 1..Len(Sig[f].args) |-> With(s, Sig[f].args[i])], 0)
  \/ Has("proj") /\ \E i \in {0, 1} : Put([k |-> "proj", i |-> i], <<With(s, "P")>>, 0)
  \/ Has("app") /\ Put([k |-> "app"], <<With(s, "F"), s>>, 0)
  \/ Has("let") /\ Put([k |-> "let", x |-> Fresh(1)],
                       <<s, [s EXCEPT !.n = @ \cup {Fresh(1)}, !.asg = @ \cup {Fresh(1)}]>>, 1)
  \* a let that binds a name already in scope again (shadowing; its scope is its own body only)
  \/ Has("letsh") /\ \E x \in s.n : Put([k |-> "let", x |-> x], <<s, [s EXCEPT !.asg = @ \cup {x}]>>, 0)
  \/ Has("letp") /\ Put([k |-> "let", x |-> Fresh(1)],
                        <<With(s, "P"), [s EXCEPT !.p = @ \cup {Fresh(1)}]>>, 1)
  \/ Has("letf") /\ Put([k |-> "let", x |-> Fresh(1)],
                        <<With(s, "F"), [s EXCEPT !.f = @ \cup {Fresh(1)}]>>, 1)
  \/ Has("lett") /\ Put([k |-> "lett", xs |-> <<Fresh(1), Fresh(2)>>],
                        <<With(s, "P"), [s EXCEPT !.n = @ \cup {Fresh(1), Fresh(2)}]>>, 2)
  \/ Has("asg") /\ \E x \in s.asg : Put([k |-> "asg", x |-> x], <<s, s>>, 0)
  \* records, arrays, numeric match
  \/ Has("fld") /\ \E fn \in {"p", "q"} : Put([k |-> "fld", n |-> fn], <<With(s, "R")>>, 0)
  \/ Has("letr") /\ Put([k |-> "let", x |-> Fresh(1)],
                        <<With(s, "R"), [s EXCEPT !.r = @ \cup {Fresh(1)}]>>, 1)
  \/ Has("asgf") /\ \E x \in s.r : \E fn \in {"p", "q"} : Put([k |-> "asgf", x |-> x, n |-> fn], <<s, s>>, 0)
  \/ Has("idx") /\ \E i \in {0, 2} : Put([k |-> "idx", i |-> i], <<With(s, "A")>>, 0)
  \/ Has("idxv") /\ Put([k |-> "idxv"], <<With(s, "A"), s>>, 0)
  \/ Has("len") /\ Put([k |-> "len"], <<With(s, "A")>>, 0)
  \/ Has("leta") /\ Put([k |-> "let", x |-> Fresh(1)],
                        <<With(s, "A"), [s EXCEPT !.a = @ \cup {Fresh(1)}]>>, 1)
  \/ Has("match") /\ Put([k |-> "match", keys |-> <<0, 2>>], <<s, Arm(s), Arm(s), Arm(s)>>, 0)

FillR(s) ==
  \/ Has("rec") /\ Put([k |-> "rec", fs |-> <<"q", "p">>], <<With(s, "N"), With(s, "N")>>, 0)
  \/ \E x \in s.r : Put([k |-> "var", x |-> x], <<>>, 0)
  \/ Has("recupd") /\ \E x \in s.r : \E fn \in {"p", "q"} :
        Put([k |-> "recupd", x |-> x, n |-> fn], <<With(s, "N")>>, 0)
  \/ Has("recupd2") /\ \E x \in s.r : Put([k |-> "recupd2", x |-> x], <<With(s, "N"), With(s, "N")>>, 0)
  \/ \E f \in Helpers : /\ Sig[f].ret = "R" /\ (Sig[f].st => s.st)
                        /\ Put([k |-> "call", f |-> f],
                               [i \in 1..Len(Sig[f].args) |-> With(s, Sig[f].args[i])], 0)
  \/ Has("ifr") /\ Put([k |-> "if"], <<With(s, "N"), Arm(s), Arm(s)>>, 0)

FillA(s) ==
  \/ Has("arr") /\ Put([k |-> "arr"], <<With(s, "N"), With(s, "N"), With(s, "N")>>, 0)
  \/ \E x \in s.a : Put([k |-> "var", x |-> x], <<>>, 0)

FillP(s) ==
  \/ Has("tup") /\ Put([k |-> "tup"], <<With(s, "N"), With(s, "N")>>, 0)
  \/ \E x \in s.p : Put([k |-> "var", x |-> x], <<>>, 0)
  \/ s.slf = "P" /\ Put([k |-> "self"], <<>>, 0)
  \/ \E f \in Helpers : /\ Sig[f].ret = "P" /\ (Sig[f].st => s.st)
                        /\ Put([k |-> "call", f |-> f],
                               [i \in 1..Len(Sig[f].args) |-> With(s, Sig[f].args[i])], 0)
  \/ Has("ifp") /\ Put([k |-> "if"], <<With(s, "N"), Arm(s), Arm(s)>>, 0)

LamBody(s, x) ==
  LET b == [s EXCEPT !.ty = "N", !.n = @ \cup {x}, !.slf = "none", !.r = {}, !.a = {}]
  IN IF AllowStatefulInLambda THEN b ELSE NoSt(b)

FillF(s) ==
  \/ Has("lam") /\ Put([k |-> "lam", x |-> Fresh(1)], <<LamBody(s, Fresh(1))>>, 1)
  \/ \E x \in s.f : Put([k |-> "var", x |-> x], <<>>, 0)
  \/ Has("fnref") /\ "dbl" \in Helpers /\ Put([k |-> "var", x |-> "dbl"], <<>>, 0)
  \/ \E f \in Helpers : /\ Sig[f].ret = "F"
                        /\ Put([k |-> "call", f |-> f],
                               [i \in 1..Len(Sig[f].args) |-> With(s, Sig[f].args[i])], 0)

Fill == /\ pend # <<>>
        /\ LET s == Head(pend) IN
             CASE s.ty = "N" -> FillN(s)
               [] s.ty = "P" -> FillP(s)
               [] s.ty = "F" -> FillF(s)
               [] s.ty = "R" -> FillR(s)
               [] s.ty = "A" -> FillA(s)

Next == Fill
Spec == Init /\ [][Next]_vars

---------------------------------------------------------------------------
(* prefix tokens -> AST *)
Arity(t) == CASE t.k \in {"lit", "var", "now", "self"} -> 0
              [] t.k \in {"neg", "mem", "delay", "proj", "lam", "fld", "idx", "len", "recupd"} -> 1
              [] t.k \in {"bin", "let", "lett", "asg", "tup", "app", "rec", "recupd2", "asgf", "idxv"} -> 2
              [] t.k \in {"if", "arr"} -> 3
              [] t.k = "match" -> 4
              [] t.k = "call" -> Len(Sig[t.f].args)

SelfZero == IF Template = "f" THEN 0 ELSE 0

RECURSIVE ParseAt(_,_), ParseN(_,_,_)
ParseN(ts, i, n) ==      \* n consecutive expressions starting at index i
  IF n = 0 THEN [es |-> <<>>, i |-> i]
  ELSE LET r == ParseAt(ts, i)
           rest == ParseN(ts, r.i, n - 1)
       IN [es |-> <<r.e>> \o rest.es, i |-> rest.i]
ParseAt(ts, i) ==
  LET t == ts[i]
      r == ParseN(ts, i + 1, Arity(t))
      c == r.es
      e == CASE t.k = "lit"  -> Lit(t.v)
             [] t.k = "var"  -> Var(t.x)
             [] t.k = "now"  -> NowE
             [] t.k = "self" -> SelfE(SelfZero)
             [] t.k = "neg"  -> Neg(c[1])
             [] t.k = "mem"  -> Mem(c[1])
             [] t.k = "delay" -> Delay(t.n, c[1], Lit(t.t))
             [] t.k = "proj" -> Proj(c[1], t.i)
             [] t.k = "lam"  -> Lam(<<t.x>>, c[1])
             [] t.k = "bin"  -> Bin(t.op, c[1], c[2])
             [] t.k = "let"  -> Let(t.x, c[1], c[2])
             [] t.k = "lett" -> LetT(t.xs, c[1], c[2])
             [] t.k = "asg"  -> Asg(t.x, c[1], c[2])
             [] t.k = "tup"  -> Tup(c)
             [] t.k = "app"  -> App(c[1], <<c[2]>>)
             [] t.k = "if"   -> If(c[1], c[2], c[3])
             [] t.k = "call" -> Call(t.f, c)
             [] t.k = "rec"  -> RecE([j \in 1..2 |-> [n |-> t.fs[j], a |-> c[j]]])
             [] t.k = "fld"  -> Fld(c[1], t.n)
             [] t.k = "recupd" -> RecUpd(Var(t.x), <<[n |-> t.n, a |-> c[1]]>>)
             [] t.k = "recupd2" -> RecUpd(Var(t.x), <<[n |-> "q", a |-> c[1]], [n |-> "p", a |-> c[2]]>>)
             [] t.k = "asgf" -> AsgF(t.x, t.n, c[1], c[2])
             [] t.k = "arr"  -> ArrE(c)
             [] t.k = "idx"  -> Idx(c[1], Lit(t.i))
             [] t.k = "idxv" -> Idx(c[1], Bin("%", c[2], Lit(3)))
             [] t.k = "len"  -> LenE(c[1])
             [] t.k = "match" -> MatchE(c[1], t.keys, <<c[2], c[3]>>, c[4])
  IN [e |-> e, i |-> r.i]

Body == ParseAt(toks, 1).e

UsesSelf(ts) == \E i \in 1..Len(ts) : ts[i].k = "self"

UsedHelpers == {f \in DOMAIN Prelude : \E i \in 1..Len(toks) : toks[i].k = "call" /\ toks[i].f = f}
                 \cup (IF GlobalSet = "stateful" THEN {"counter"} ELSE {})
                 \cup (IF \E i \in 1..Len(toks) : toks[i].k = "var" /\ toks[i].x = "dbl" THEN {"dbl"} ELSE {})
Closure(H) == H \cup (IF "nest" \in H THEN {"counter", "lag"} ELSE {})

Prog ==
  LET H == Closure(UsedHelpers)
      hs == [f \in H |-> Prelude[f]]
      gen == IF Template = "clo"
             THEN [dsp |-> [ps |-> <<>>, self |-> FALSE,
                            b |-> Let("v", Lit(1),
                                      Let("bump", Lam(<<"y">>, Asg("v", Bin("+", Var("v"), Var("y")), Var("v"))), Body))]]
             ELSE IF Template = "hof"
             \* a captured variable and a capturing closure: the body may hand `inner` to helper functions,
             \* wrap it in further closures and read k after such calls
             THEN [dsp |-> [ps |-> <<"x">>, self |-> FALSE,
                            b |-> Let("k", Bin("+", Var("x"), Lit(1)),
                                      Let("inner", Lam(<<"y">>, Bin("+", Bin("*", Var("y"), Lit(10)), Var("k"))), Body))]]
             ELSE IF Template \in {"dsp", "dsp2"}
             THEN [dsp |-> [ps |-> IF UseInput THEN <<"x">> ELSE <<>>, self |-> FALSE, b |-> Body]]
             ELSE [f |-> [ps |-> <<"x">>, self |-> UsesSelf(toks), b |-> Body],
                   dsp |-> [ps |-> IF UseInput THEN <<"x">> ELSE <<>>, self |-> FALSE,
                            b |-> Bin("+", Call("f", <<IF UseInput THEN Var("x") ELSE Lit(1)>>),
                                           Bin("*", Call("f", <<NowE>>), Lit(100)))]]
  IN [nout |-> IF Template = "dsp2" THEN 2 ELSE 1, globals |-> Globals,
      fns |-> [f \in (DOMAIN hs) \cup (DOMAIN gen) |-> IF f \in DOMAIN gen THEN gen[f] ELSE hs[f]]]

(* two input streams when dsp has an input *)
Inputs == IF Template = "hof" THEN {[i \in 1..NSamples |-> (i * 3) % 5]} ELSE
          IF UseInput THEN {[i \in 1..NSamples |-> (i * 3) % 5], [i \in 1..NSamples |-> 2 - i]}
          ELSE {[i \in 1..NSamples |-> 0]}

RECURSIVE TailProj(_)
TailProj(e) == CASE e.k \in {"proj", "fld"} -> TRUE
                 [] e.k \in {"let", "lett", "asg", "asgf"} -> TailProj(e.b)
                 [] e.k = "if" -> TailProj(e.t) \/ TailProj(e.e)
                 [] e.k = "match" -> TailProj(e.d) \/ \E i \in 1..Len(e.arms) : TailProj(e.arms[i])
                 [] OTHER -> FALSE

Excluded == ~AllowProjAsFeedResult /\ TailProj(Body)

Complete == pend = <<>> /\ ~Excluded

Emit ==
  Complete =>
    \A inp \in Inputs :
      LET r == Outputs(Prog, inp, NSamples)
      IN PrintT(<<"REPLAY", ToJson([prog |-> Prog, inputs |-> inp,
                                    expect |-> r.outs, oom |-> r.st.S.oom,
                                    ntok |-> Len(toks)])>>)
=============================================================================

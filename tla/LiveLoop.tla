------------------------------ MODULE LiveLoop ------------------------------
(***************************************************************************)
(* The live-coding loop of the CLI as a protocol between three parties     *)
(* (properties C06 / C07 at the level of the running system):              *)
(*                                                                         *)
(*   editor   saves a new version of the file (or a version that does not  *)
(*            compile); the watcher queues one event per save;             *)
(*   watcher  (FileRunner::cli_loop, non-real-time thread) takes an event, *)
(*            loads the file *as it is then*, compiles it (compile service *)
(*            thread for the VM, compiler subprocess for WASM), composes a *)
(*            payload and sends it over the swap channel;                  *)
(*   audio    (NativeAudioData::process, real-time thread) takes payloads  *)
(*            from the channel at the start of a callback, swaps, renders. *)
(*                                                                         *)
(* Who computes the state migration differs per backend:                   *)
(*   "vm"           the audio thread, from the program it is running       *)
(*                  (Machine::new_resume): always consistent;              *)
(*   "wasm_inproc"  the watcher, from the layout of the program it         *)
(*                  *prepared last* (FileRunner::old_program), applied by  *)
(*                  the audio thread to whatever is running then: right    *)
(*                  only if every payload is applied, in order;            *)
(*   "wasm_subproc" what the CLI does today for WASM: the subprocess       *)
(*                  returns module bytes only, the payload carries no      *)
(*                  layout, the audio thread copies the old words verbatim.*)
(*                                                                         *)
(* State is abstract: a layout is a sequence of distinct voices of one     *)
(* word each; mem[i] is the voice whose state word i holds (0 = zero).     *)
(* The promise (C07): at a swap every voice of the old program that is     *)
(* still in the new one finds its own word, every new voice finds zero.    *)
(***************************************************************************)
EXTENDS Integers, Sequences, FiniteSets, TLC

CONSTANTS Backend,        \* "vm" | "wasm_inproc" | "wasm_subproc"
          Consumer,       \* "one_per_callback" (the code) | "drain_all" | "drain_latest"
          Voices,         \* e.g. 1..3
          MaxSaves, MaxCallbacks,
          ShiftingEdits   \* FALSE: voices are only appended / removed at the end

VARIABLES disk,     \* the file: a layout or "broken"
          good,     \* the last version saved that compiles
          events,   \* watcher events not yet taken
          wpc,      \* watcher: <<"idle">> | <<"compiling", content>>
          psk,      \* watcher: layout of the program prepared last ("none": unknown)
          chan,     \* swap channel, oldest first: [to, from, skel]
          run,      \* audio: layout of the running program
          rsk,      \* audio: current_dsp_skeleton ("none": unknown)
          mem,      \* audio: flat state
          used,     \* voices that have ever been in the file (a voice that is written again is a new voice)
          bad,      \* a swap broke the promise
          badS,     \* ... its first half: a surviving voice lost its word
          stale,    \* a payload was applied whose plan was computed for another program than the running one
          nsave, ncb
vars == <<disk, good, events, wpc, psk, chan, run, rsk, mem, used, bad, badS, stale, nsave, ncb>>

(* sentinels are sequences of negative numbers so that they compare with layouts *)
Broken == <<-1>>
None == <<-2>>
Audio == <<-3>>
Range(s) == {s[i] : i \in 1..Len(s)}
Pos(l, v) == CHOOSE i \in 1..Len(l) : l[i] = v
RemoveAt(s, i) == SubSeq(s, 1, i - 1) \o SubSeq(s, i + 1, Len(s))
InsertAt(s, i, x) == SubSeq(s, 1, i - 1) \o <<x>> \o SubSeq(s, i, Len(s))

(* the versions one edit away from layout l *)
Edits(l) ==
  {InsertAt(l, i, v) : v \in Voices \ used, i \in (IF ShiftingEdits THEN 1..(Len(l) + 1) ELSE {Len(l) + 1})}
  \cup {RemoveAt(l, i) : i \in (IF ShiftingEdits THEN 1..Len(l) ELSE {Len(l)} \ {0})}

Init == /\ disk = <<1>> /\ good = <<1>> /\ events = 0 /\ wpc = <<"idle">>
        /\ psk = <<1>> /\ chan = <<>> /\ run = <<1>> /\ rsk = <<1>> /\ mem = <<0>>
        /\ used = {1} /\ bad = FALSE /\ badS = FALSE /\ stale = FALSE /\ nsave = 0 /\ ncb = 0

Save == /\ nsave < MaxSaves
        /\ \E l \in Edits(good) \cup {good, Broken} :
             /\ disk' = l
             /\ good' = IF l = Broken THEN good ELSE l
             /\ used' = IF l = Broken THEN used ELSE used \cup Range(l)
        /\ events' = events + 1 /\ nsave' = nsave + 1
        /\ UNCHANGED <<wpc, psk, chan, run, rsk, mem, bad, badS, stale, ncb>>

(* the watcher takes an event and loads the file as it is now *)
WatcherTake == /\ wpc = <<"idle">> /\ events > 0
               /\ events' = events - 1 /\ wpc' = <<"compiling", disk>>
               /\ UNCHANGED <<disk, good, psk, chan, run, rsk, mem, used, bad, badS, stale, nsave, ncb>>

(* the compilation returns; a payload is composed and sent, or the error is reported and nothing else happens *)
WatcherSend ==
  /\ wpc[1] = "compiling"
  /\ wpc' = <<"idle">>
  /\ LET l == wpc[2] IN
     IF l = Broken THEN UNCHANGED <<psk, chan>>
     ELSE CASE Backend = "vm" ->
                 /\ chan' = Append(chan, [to |-> l, from |-> Audio, skel |-> l]) /\ UNCHANGED psk
            [] Backend = "wasm_inproc" ->
                 /\ chan' = Append(chan, [to |-> l, from |-> psk, skel |-> l]) /\ psk' = l
            [] Backend = "wasm_subproc" ->
                 /\ chan' = Append(chan, [to |-> l, from |-> None, skel |-> None]) /\ psk' = None
  /\ UNCHANGED <<disk, good, events, run, rsk, mem, used, bad, badS, stale, nsave, ncb>>

(* the state the new program starts with *)
ByPlan(from, to, m) ==     \* copy, for every voice of `to` that `from` has, the word at its place in `from`
  [j \in 1..Len(to) |-> IF to[j] \in Range(from) /\ Pos(from, to[j]) <= Len(m) THEN m[Pos(from, to[j])] ELSE 0]
Verbatim(to, m) == [j \in 1..Len(to) |-> IF j <= Len(m) THEN m[j] ELSE 0]
Swapped(p, r, k, m) ==
  CASE Backend = "vm" -> ByPlan(r, p.to, m)
    [] p.skel # None /\ k # None /\ p.from # None -> ByPlan(p.from, p.to, m)
    [] OTHER -> Verbatim(p.to, m)
Promise(old, new, m, m2) ==
  \A j \in 1..Len(new) : IF new[j] \in Range(old) THEN m2[j] = m[Pos(old, new[j])] ELSE m2[j] = 0
Survive(old, new, m, m2) ==
  \A j \in 1..Len(new) : new[j] \in Range(old) => m2[j] = m[Pos(old, new[j])]

RECURSIVE ApplyAll(_,_,_,_,_,_,_)
ApplyAll(ps, r, k, m, b, bs, st) ==      \* apply payloads in order; returns the audio thread's state
  IF ps = <<>> THEN [run |-> r, rsk |-> k, mem |-> m, bad |-> b, badS |-> bs, stale |-> st]
  ELSE LET p == Head(ps)
           m2 == Swapped(p, r, k, m)
       IN ApplyAll(Tail(ps), p.to, p.skel, m2, b \/ ~Promise(r, p.to, m, m2), bs \/ ~Survive(r, p.to, m, m2),
                   st \/ (p.from \notin {Audio, None} /\ p.from # r))

(* one callback: take payloads as the consumer does, swap, render (every running voice writes its word) *)
Callback ==
  /\ ncb < MaxCallbacks
  /\ LET taken == CASE chan = <<>> -> <<>>
                    [] Consumer = "one_per_callback" -> <<Head(chan)>>
                    [] Consumer = "drain_all" -> chan
                    [] Consumer = "drain_latest" -> <<chan[Len(chan)]>>
         left == IF chan = <<>> \/ Consumer # "one_per_callback" THEN <<>> ELSE Tail(chan)
         a == ApplyAll(taken, run, rsk, mem, bad, badS, stale)
     IN /\ chan' = left /\ run' = a.run /\ rsk' = a.rsk /\ bad' = a.bad /\ badS' = a.badS /\ stale' = a.stale
        /\ mem' = [j \in 1..Len(a.run) |-> a.run[j]]
  /\ ncb' = ncb + 1
  /\ UNCHANGED <<disk, good, events, wpc, psk, used, nsave>>

Next == Save \/ WatcherTake \/ WatcherSend \/ Callback
Spec == Init /\ [][Next]_vars

---------------------------------------------------------------------------
(* C07 on the running system: no swap ever breaks the promise *)
SwapKeepsPromise == ~bad
SurvivorsContinue == ~badS        \* the half of it that channel A of the replayed histories observes
(* the mechanism behind it on WASM: a plan is only ever applied to the program it was computed for *)
PlanMatchesRunningProgram == ~stale
(* nothing is lost: once everything has drained, the file - if it compiles - is what sounds.  (A good save that   *)
(* is overwritten by a broken one before the watcher gets to it is never compiled: the watcher loads the file   *)
(* when it handles the event, not when the event was raised.  TLC shows this with `run = good` in place of the *)
(* consequent; the property does not promise it.)                                                               *)
Quiescent == events = 0 /\ wpc = <<"idle">> /\ chan = <<>>
LastGoodSaveRuns == (Quiescent /\ disk # Broken) => run = disk
(* the watcher's idea of the running layout is the layout at the end of the channel *)
ProducerTracksChannel ==
  (Backend = "wasm_inproc") =>
     psk = (IF chan = <<>> THEN run ELSE chan[Len(chan)].to) \/ Consumer = "drain_latest"
=============================================================================

------------------------------ MODULE HeapTrace ------------------------------
(***************************************************************************)
(* Trace validation for C12.  A record is one run: {id, samples, steady}   *)
(* where samples[t] = [ev, heap, a, b]: the lifecycle events of sample t   *)
(* ([kind, op, key, rc]), the number of live heap objects the VM holds     *)
(* after the sample (-1: not compared with the model: the global           *)
(* initialisation pseudo-sample, the WASM runtime) and the two counters    *)
(* whose boundedness is asked (VM: closures, heap objects; WASM host: heap *)
(* objects, closure state storages); `steady` = <<n, m>> asks              *)
(* that the live numbers after sample n and after sample m are equal (the  *)
(* program has reached its steady state by n; <<0, 0>> = not asked).       *)
(*                                                                         *)
(* Every event must be enabled in the Heap model: alloc of a key that is   *)
(* not live, retain / release / drop of a live key whose count is the      *)
(* reported one; the number of live heap objects after a sample must be    *)
(* the model's.                                                            *)
(***************************************************************************)
EXTENDS Heap, Json, IOUtils

Rec == ndJsonDeserialize(IOEnv.TRACE)
VARIABLES l, t, e, heapLive, clsLive, heapAtStart, unknownTouched
vars == <<l, t, e, heapLive, clsLive, heapAtStart, unknownTouched>>
R == Rec[l]
Init == l = 1 /\ t = 1 /\ e = 1 /\ heapLive = <<>> /\ clsLive = <<>> /\ heapAtStart = 0 /\ unknownTouched = FALSE

NextRecord == /\ l' = l + 1 /\ t' = 1 /\ e' = 1 /\ heapLive' = <<>> /\ clsLive' = <<>>
              /\ heapAtStart' = 0 /\ unknownTouched' = FALSE
              /\ (IF l = Len(Rec) THEN PrintT(<<"CONSUMED", ToJson([n |-> Len(Rec)])>>) ELSE TRUE)
Fail(what) == PrintT(<<"FAIL", ToJson([id |-> R.id, at |-> t - 1, what |-> what])>>)

SteadyOk == \/ R.steady[1] = 0
            \/ /\ R.samples[R.steady[1]].a = R.samples[R.steady[2]].a
               /\ R.samples[R.steady[1]].b = R.samples[R.steady[2]].b

(* objects that existed before recording started (created by the global initialisers, possibly   *)
(* in another VM instance at the macro stage) are unknown to the model: events on them are not    *)
(* judged, and a sample that touches one is exempt from the count comparison                       *)
Known(live, key) == key \in DOMAIN live

Step ==
  /\ l <= Len(Rec)
  /\ IF t > Len(R.samples)
     THEN IF SteadyOk THEN NextRecord
          ELSE Fail("live objects keep accumulating: after sample " \o ToString(R.steady[1] - 1) \o " and after sample "
                    \o ToString(R.steady[2] - 1) \o " the runtime holds different numbers of closures / heap objects")
               /\ NextRecord
     ELSE LET s == R.samples[t] IN
          IF e > Len(s.ev)
          THEN \* end of the sample: the growth of the runtime's own count of heap objects is the model's
               IF t > 1 /\ s.heap >= 0 /\ R.samples[t-1].heap >= 0 /\ ~unknownTouched
                  /\ s.heap - R.samples[t-1].heap # Cardinality(DOMAIN heapLive) - heapAtStart
               THEN Fail("growth of the number of live heap objects differs from the lifecycle model") /\ NextRecord
               ELSE /\ t' = t + 1 /\ e' = 1 /\ heapAtStart' = Cardinality(DOMAIN heapLive) /\ unknownTouched' = FALSE
                    /\ UNCHANGED <<l, heapLive, clsLive>>
          ELSE LET ev == s.ev[e]
                   kind == ev[1]  op == ev[2]  key == ev[3]  rc == ev[4]
                   Skip == e' = e + 1 /\ unknownTouched' = TRUE /\ UNCHANGED <<l, t, heapLive, clsLive, heapAtStart>>
               IN IF kind = "heap" /\ op = "alloc"
                  THEN IF CanAlloc(heapLive, key)
                       THEN heapLive' = Alloc(heapLive, key) /\ e' = e + 1 /\ UNCHANGED <<l, t, clsLive, heapAtStart, unknownTouched>>
                       ELSE Fail("heap slot allocated while live") /\ NextRecord
                  ELSE IF kind = "heap" /\ op \in {"retain", "release"} /\ ~Known(heapLive, key)
                  THEN IF rc >= 1 THEN Skip          \* a live object from before the recording
                       ELSE Fail(op \o " of a heap object that is not live (use after release)") /\ NextRecord
                  ELSE IF kind = "heap" /\ op = "retain"
                  THEN IF CanTouch(heapLive, key, rc)
                       THEN heapLive' = Retain(heapLive, key) /\ e' = e + 1 /\ UNCHANGED <<l, t, clsLive, heapAtStart, unknownTouched>>
                       ELSE Fail("retain of a heap object whose count differs from the model") /\ NextRecord
                  ELSE IF kind = "heap" /\ op = "release"
                  THEN IF CanTouch(heapLive, key, rc)
                       THEN heapLive' = Release(heapLive, key) /\ e' = e + 1 /\ UNCHANGED <<l, t, clsLive, heapAtStart, unknownTouched>>
                       ELSE Fail("release of a heap object whose count differs from the model") /\ NextRecord
                  ELSE IF kind = "cls" /\ op = "alloc"
                  THEN IF CanAlloc(clsLive, key)
                       THEN clsLive' = Alloc(clsLive, key) /\ e' = e + 1 /\ UNCHANGED <<l, t, heapLive, heapAtStart, unknownTouched>>
                       ELSE Fail("closure slot allocated while live") /\ NextRecord
                  ELSE IF kind = "cls" /\ op = "drop"
                  THEN IF ~Known(clsLive, key)
                       THEN IF rc >= 0 THEN e' = e + 1 /\ UNCHANGED <<l, t, heapLive, clsLive, heapAtStart, unknownTouched>>
                            ELSE Fail("drop of a closure that is not live") /\ NextRecord
                       ELSE clsLive' = (IF rc <= 0 THEN [k \in DOMAIN clsLive \ {key} |-> clsLive[k]]
                                        ELSE [clsLive EXCEPT ![key] = rc])
                            /\ e' = e + 1 /\ UNCHANGED <<l, t, heapLive, heapAtStart, unknownTouched>>
                  ELSE e' = e + 1 /\ UNCHANGED <<l, t, heapLive, clsLive, heapAtStart, unknownTouched>>
Spec == Init /\ [][Step]_vars
=============================================================================

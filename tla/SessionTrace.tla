---------------------------- MODULE SessionTrace ----------------------------
(***************************************************************************)
(* Trace specification for the session interner (C19).  The events were    *)
(* recorded while the session lock was held, by all threads of a process;  *)
(* their sequence numbers are the order in which the lock was granted.     *)
(* The recorded history must be a history of a sequential interner:        *)
(*                                                                         *)
(*   Intern(s)  returns the id s already has, or - exactly when s was not  *)
(*              interned before - an id no string has;                     *)
(*   Resolve(i) returns the string that was interned as i.                 *)
(*                                                                         *)
(* Strings travel as digests.  Entries made before recording began are     *)
(* learnt from their first appearance (a non-fresh Intern or a Resolve of  *)
(* an id not yet in the table), as long as they do not contradict it.      *)
(* One record per round: [id, events].                                     *)
(***************************************************************************)
EXTENDS Integers, Sequences, FiniteSets, TLC, Json, IOUtils

Rec == ndJsonDeserialize(IOEnv.TRACE)

VARIABLES l, k, tab, strs, lastseq
vars == <<l, k, tab, strs, lastseq>>
Init == l = 1 /\ k = 1 /\ tab = <<>> /\ strs = {} /\ lastseq = -1

E == Rec[l].events[k]
Fail(what) == PrintT(<<"FAIL", ToJson([id |-> Rec[l].id, at |-> k, what |-> what, ev |-> E])>>)
NextRound == /\ l' = l + 1 /\ k' = 1 /\ tab' = <<>> /\ strs' = {} /\ lastseq' = -1
             /\ (IF l = Len(Rec) THEN PrintT(<<"CONSUMED", ToJson([n |-> Len(Rec)])>>) ELSE TRUE)

Learn == tab' = (E.id :> E.d) @@ tab /\ strs' = strs \cup {E.d}

Step ==
  /\ l <= Len(Rec)
  /\ IF Len(Rec[l].events) = 0 THEN NextRound
     ELSE IF E.seq <= lastseq THEN Fail("sequence numbers not increasing") /\ NextRound
     ELSE IF E.op = "intern" /\ E.fresh /\ (E.id \in DOMAIN tab \/ E.d \in strs)
          THEN Fail("a fresh id for a string that is interned, or an id that is taken") /\ NextRound
     ELSE IF E.id \in DOMAIN tab /\ tab[E.id] # E.d
          THEN Fail("the id names another string") /\ NextRound
     ELSE IF E.id \notin DOMAIN tab /\ ~(E.op = "intern" /\ E.fresh) /\ E.d \in strs
          THEN Fail("one string under two ids") /\ NextRound
     ELSE IF k < Len(Rec[l].events)
          THEN /\ (IF E.id \in DOMAIN tab THEN UNCHANGED <<tab, strs>> ELSE Learn)
               /\ lastseq' = E.seq /\ k' = k + 1 /\ l' = l
          ELSE NextRound
Next == Step
Spec == Init /\ [][Next]_vars
=============================================================================

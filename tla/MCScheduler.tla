---- MODULE MCScheduler ----
EXTENDS Scheduler, Json
CONSTANT Emit
InvEmit == (phase = "done" /\ Emit) =>
   PrintT(<<"REPLAY", ToJson([cfg |-> cfg, outs |-> outs, backend |-> Backend])>>)
====

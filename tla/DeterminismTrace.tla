-------------------------- MODULE DeterminismTrace --------------------------
(***************************************************************************)
(* Trace specification for C15 / C19: the recorded compilations of all     *)
(* processes, histories and threads, in any order.  Each record is one     *)
(* Compile event of Session.tla: [src, who, obs] with obs a record of      *)
(* digests (bytecode listing, WASM bytes, state layout, outputs,           *)
(* diagnostics, status).  The only action is Session's: the artifact       *)
(* observed for a source joins seen[src]; a record whose observation       *)
(* differs from the one already seen has no step (FAIL names the component *)
(* that differs and the two events).                                       *)
(***************************************************************************)
EXTENDS Integers, Sequences, TLC, Json, IOUtils

Rec == ndJsonDeserialize(IOEnv.TRACE)
Fields == {"status", "bytecode", "wasm", "skel", "out", "diag"}

VARIABLES l, seen, who
vars == <<l, seen, who>>
Init == l = 1 /\ seen = <<>> /\ who = <<>>

R == Rec[l]
Diff(a, b) == {f \in Fields : a[f] # b[f]}
Compile ==
  /\ l <= Len(Rec)
  /\ IF R.src \in DOMAIN seen
     THEN /\ (IF Diff(seen[R.src], R.obs) # {}
              THEN PrintT(<<"FAIL", ToJson([src |-> R.src, who |-> R.who, first |-> who[R.src],
                                            differs |-> Diff(seen[R.src], R.obs)])>>)
              ELSE TRUE)
          /\ UNCHANGED <<seen, who>>
     ELSE /\ seen' = (R.src :> R.obs) @@ seen
          /\ who' = (R.src :> R.who) @@ who
  /\ l' = l + 1
  /\ (IF l = Len(Rec) THEN PrintT(<<"CONSUMED", ToJson([n |-> Len(Rec)])>>) ELSE TRUE)
Next == Compile
Spec == Init /\ [][Next]_vars
=============================================================================

--------------------------- MODULE MCStateCursor ---------------------------
(* Bounded enumeration of function shapes for StateCursor (C05). *)
EXTENDS StateCursor, Json

CONSTANTS MaxEvents,    \* events in the body of the top function
          MaxArm,       \* events in an if arm
          NestIf,       \* TRUE: an arm may contain a (flat) if
          AtomSet,      \* "full" | "small"
          Sw,           \* TRUE: three-armed match events with arms of at most one atom
          Emit          \* TRUE: print the predicted event lists for replay

Counter == [feed |-> 1, body |-> <<>>]
Lag     == [feed |-> 0, body |-> <<[k |-> "mem"]>>]
Pacc    == [feed |-> 2, body |-> <<>>]
Nacc    == [feed |-> 3, body |-> <<>>]       \* self is a nested tuple (float,(float,float)): one cell of three words
Nest    == [feed |-> 0, body |-> <<[k |-> "call", f |-> Counter], [k |-> "call", f |-> Counter],
                                   [k |-> "call", f |-> Lag]>>]
Gate    == [feed |-> 1, body |-> <<[k |-> "if", t |-> <<[k |-> "mem"]>>, e |-> <<>>]>>]
Callees == {Counter, Lag, Pacc, Nacc, Nest, Gate}

Atoms == IF AtomSet = "full"
         THEN {[k |-> "mem"], [k |-> "delay", n |-> 1], [k |-> "delay", n |-> 3]}
                \cup {[k |-> "call", f |-> c] : c \in Callees}
         ELSE {[k |-> "mem"], [k |-> "delay", n |-> 2]}
                \cup {[k |-> "call", f |-> c] : c \in {Counter, Pacc, Nacc, Gate}}
Seqs(S, n) == UNION {[1..k -> S] : k \in 0..n}
If0 == {[k |-> "if", t |-> t, e |-> e] : t \in Seqs(Atoms, MaxArm), e \in Seqs(Atoms, MaxArm)}
ArmEv == IF NestIf THEN Atoms \cup {[k |-> "if", t |-> t, e |-> e] : t \in Seqs(Atoms, 1), e \in Seqs(Atoms, 1)}
         ELSE Atoms
Ifs == {[k |-> "if", t |-> t, e |-> e] : t \in Seqs(ArmEv, MaxArm), e \in Seqs(ArmEv, MaxArm)}
Sws == IF Sw THEN {[k |-> "sw", arms |-> <<a, b, c>>] : a \in Seqs(Atoms, 1), b \in Seqs(Atoms, 1), c \in Seqs(Atoms, 1)}
       ELSE {}
Events == Atoms \cup Ifs \cup Sws

VARIABLES f, done
vars == <<f, done>>
Init == f = [feed |-> 0, body |-> <<>>] /\ done = FALSE
AddEvent == /\ ~done /\ Len(f.body) < MaxEvents
            /\ \E e \in Events : f' = [f EXCEPT !.body = Append(@, e)]
            /\ UNCHANGED done
Finish == /\ ~done /\ \E fd \in {0, 1, 2} : f' = [f EXCEPT !.feed = fd]
          /\ done' = TRUE
Next == AddEvent \/ Finish
Spec == Init /\ [][Next]_vars

InvLayout == done => LayoutMatches(f)

RunSeq(S) == LET RECURSIVE ToSeq(_)
                 ToSeq(X) == IF X = {} THEN <<>>
                             ELSE LET x == CHOOSE y \in X : TRUE IN <<x>> \o ToSeq(X \ {x})
             IN ToSeq(S)
InvEmit == (done /\ Emit) =>
  PrintT(<<"REPLAY", ToJson([fn |-> f, sk |-> CompFn(f).sk,
                             runs |-> RunSeq({[path |-> r.path, ev |-> r.ev] : r \in Runs(f)})])>>)
=============================================================================

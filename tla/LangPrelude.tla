---- MODULE LangPrelude ----
(* prints the prelude of LangGen as JSON so that the Python-side random generator uses the same helper ASTs *)
EXTENDS LangGen
PInit == toks = <<>> /\ pend = <<>> /\ nv = 0
PSpec == PInit /\ [][UNCHANGED vars]_vars
PInv == PrintT(<<"PRELUDE", ToJson([fns |-> Prelude, sig |-> Sig])>>)
====

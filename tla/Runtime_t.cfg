SPECIFICATION RSpec
CONSTANTS
  Budget = 3
  Template = "f"
  UseInput = FALSE
  Lits = {1, 2}
  Ops = {"+", "*"}
  Helpers = {"counter", "lag", "pacc", "dl", "nest", "acc7"}
  Prods = {"now", "mem", "delay", "proj", "let", "lett", "tup"}
  NSamples = 7
  AllowStatefulInBranchArm = FALSE
  AllowStatefulInLambda = FALSE
  AllowProjAsFeedResult = FALSE
  SwapAt = {0, 1, 2, 5}
  MaxSwaps = 2
INVARIANT SwapInaudible
INVARIANT EmitHistory
PROPERTY SwapIsStutter
CHECK_DEADLOCK FALSE

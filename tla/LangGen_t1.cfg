SPECIFICATION Spec
CONSTANTS
  Budget = 4
  Template = "f"
  UseInput = FALSE
  Lits = {1, 2}
  Ops = {"+", "*", "-", "<"}
  Helpers = {"counter", "lag", "pacc", "dl", "nest", "dbl", "apply", "mk", "swap", "acc7"}
  Prods = {"now", "neg", "if", "mem", "delay", "proj", "app", "let", "letp", "letf", "lett", "asg", "tup", "ifp", "lam", "fnref"}
  NSamples = 6
  AllowStatefulInBranchArm = FALSE
  AllowStatefulInLambda = FALSE
INVARIANT Emit
CHECK_DEADLOCK FALSE

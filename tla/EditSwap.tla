------------------------------ MODULE EditSwap ------------------------------
(***************************************************************************)
(* Live coding with edits (property C07).  The program is a list of        *)
(* independent stateful *voices*, each bound by a `let` in dsp:            *)
(*                                                                         *)
(*   fn dsp(){ let v1 = <voice 1>  ...  let vn = <voice n>                 *)
(*             (sum of w_i * v_i over untouched voices,  sum over the rest) }  *)
(*                                                                         *)
(* Channel A depends only on call sites no edit has touched; channel B     *)
(* collects everything an edit has inserted, replaced or re-parameterised. *)
(* Edits: insert, delete or replace a voice, change a constant, nest a     *)
(* voice one call deeper (or back), break the program.                     *)
(* An edit is followed by a hot swap.  What the property promises is stated*)
(* on the specification's own state (Lang's cells, keyed by call-tree      *)
(* path): the cells of every surviving voice move with the voice to its    *)
(* new position, every other cell of the new program starts at zero, the   *)
(* clock keeps running; an edit that does not compile changes nothing.     *)
(* TLC explores every history of ticks, edits and failed compilations      *)
(* within the bounds and prints it with the samples channel A must show.   *)
(*                                                                         *)
(* Voices of one program have pairwise different state shapes, so which    *)
(* state belongs to which voice is never ambiguous (the property leaves    *)
(* the assignment among identically shaped siblings open).                 *)
(***************************************************************************)
EXTENDS Lang, Json

CONSTANTS NTicks,        \* samples per history
          MaxEdits,      \* edits (successful or failing) per history
          MaxVoices, InitVoices,
          EditAt,        \* sample indices before which an edit may happen
          Live,          \* FALSE: an edit is swapped in at once (the runtimes' hot-swap entry points);
                         \* TRUE: the live-coding loop - an edit (a save of the file) is compiled and *queued*
                         \* for the audio callback, which takes one queued program per invocation and then
                         \* renders its frames (FileRunner / swap channel / NativeAudioData::process)
          Frames,        \* Live: sizes of an audio callback's buffer (in frames)
          ShapeSet       \* the shapes voices are created with (a subset of Shapes)

Helpers == [
  counter |-> [ps |-> <<"inc">>, self |-> TRUE,  b |-> Bin("+", SelfE(0), Var("inc"))],
  lag     |-> [ps |-> <<"x">>,   self |-> FALSE, b |-> Mem(Var("x"))],
  dl      |-> [ps |-> <<"x">>,   self |-> FALSE, b |-> Delay(4, Var("x"), Lit(2))],
  nest    |-> [ps |-> <<"x">>,   self |-> FALSE,
               b |-> Bin("+", Call("counter", <<Var("x")>>),
                              Bin("*", Call("lag", <<Call("counter", <<Lit(1)>>)>>), Lit(10)))],
  deep    |-> [ps |-> <<"x">>,   self |-> FALSE, b |-> Call("counter", <<Var("x")>>)],   \* counter, one call deeper
  pacc    |-> [ps |-> <<"x">>,   self |-> TRUE,
               b |-> LetT(<<"a", "b">>, SelfE(<<0, 0>>),
                          Tup(<<Bin("+", Var("a"), Var("x")), Bin("+", Var("b"), Var("a"))>>))]
]
Shapes == {"counter", "lagv", "dlv", "nestv", "paccv", "idl"}      \* shapes a voice is created with
(* "idl": a delay line written inline in dsp whose operand is itself a stateful call; an edit may insert (or remove)  *)
(* a further stateful site *inside* the operand ("idl2": + mem(0) * 0, which adds nothing audible): the delay line   *)
(* and the counter are untouched call sites and continue                                                            *)
DeepOf(shape) == IF shape = "counter" THEN "deepc" ELSE "none"   \* the same voice nested one call deeper
VoiceExpr(shape, k) ==
  CASE shape = "counter" -> Call("counter", <<Lit(k)>>)
    [] shape = "deepc"   -> Call("deep", <<Lit(k)>>)
    [] shape = "lagv"    -> Call("lag", <<Bin("*", NowE, Lit(k))>>)
    [] shape = "dlv"     -> Call("dl", <<Bin("+", NowE, Lit(k))>>)
    [] shape = "nestv"   -> Call("nest", <<Lit(k)>>)
    [] shape = "paccv"   -> Bin("%", Proj(Call("pacc", <<Lit(k)>>), 1), Lit(97))
    [] shape = "idl"     -> Delay(4, Call("counter", <<Lit(k)>>), Lit(2))
    [] shape = "idl2"    -> Delay(4, Bin("+", Call("counter", <<Lit(k)>>), Bin("*", Mem(Lit(0)), Lit(0))), Lit(2))

(* a voice: [id, shape, k, chan]; id is its identity through the history *)
Name(v) == "v" \o ToString(v.id)
Weight(v) == CASE v.id = 1 -> 1 [] v.id = 2 -> 100 [] v.id = 3 -> 10000 [] OTHER -> 1000000

RECURSIVE SumOf(_)
SumOf(vs) == IF vs = <<>> THEN Lit(0)
             ELSE Bin("+", Bin("*", Var(Name(Head(vs))), Lit(2 * Head(vs).id + 1)), SumOf(Tail(vs)))
RECURSIVE Body(_,_)
Body(vs, all) ==
  IF vs = <<>>
  THEN Tup(<<SumOf(SelectSeq(all, LAMBDA v : v.chan = "A")), SumOf(SelectSeq(all, LAMBDA v : v.chan = "B"))>>)
  ELSE Let(Name(Head(vs)), VoiceExpr(Head(vs).shape, Head(vs).k), Body(Tail(vs), all))
Prog(vs) == [nout |-> 2, globals |-> <<>>,
             fns |-> [f \in DOMAIN Helpers \cup {"dsp"} |->
                        IF f = "dsp" THEN [ps |-> <<>>, self |-> FALSE, b |-> Body(vs, vs)] ELSE Helpers[f]]]

(* position of the let-bound expression of the j-th voice inside dsp's body *)
RECURSIVE Twos(_)
Twos(n) == IF n = 0 THEN <<>> ELSE <<2>> \o Twos(n - 1)
BindPos(j) == Twos(j - 1) \o <<1>>
(* every cell key of voice j starts with a position that extends BindPos(j) *)
IsPrefix(p, q) == Len(p) <= Len(q) /\ SubSeq(q, 1, Len(p)) = p
Rebase(key, from, to) == <<to \o SubSeq(key[1], Len(from) + 1, Len(key[1]))>> \o Tail(key)

IndexOf(vs, id) == IF \E j \in 1..Len(vs) : vs[j].id = id
                   THEN CHOOSE j \in 1..Len(vs) : vs[j].id = id ELSE 0

(* where a cell of a voice goes when the voice is edited *inside*: rel is the cell's position relative to the voice's *)
(* binding; <<-1>> = the cell is gone                                                                               *)
InnerMap(s1, s2, rel) ==
  CASE s1 = s2 -> rel
    [] s1 = "idl" /\ s2 = "idl2" -> IF rel = <<>> THEN rel ELSE <<1, 1>> \o Tail(rel)
    [] s1 = "idl2" /\ s2 = "idl" -> IF rel = <<>> THEN rel
                                    ELSE IF Len(rel) >= 2 /\ rel[1] = 1 /\ rel[2] = 1 THEN <<1>> \o SubSeq(rel, 3, Len(rel))
                                    ELSE <<-1>>
    [] OTHER -> <<-1>>
SameVoice(s1, s2) == s1 = s2 \/ {s1, s2} = {"idl", "idl2"}
Rel(key, from) == SubSeq(key[1], Len(from) + 1, Len(key[1]))

(* the promise of C07 on the specification's state *)
Migrate(cells, old, new) ==
  LET moved == {<<key, j>> \in (DOMAIN cells) \X (1..Len(old)) :
                  /\ IsPrefix(BindPos(j), key[1])
                  /\ IndexOf(new, old[j].id) # 0
                  /\ SameVoice(old[j].shape, new[IndexOf(new, old[j].id)].shape)
                  /\ InnerMap(old[j].shape, new[IndexOf(new, old[j].id)].shape, Rel(key, BindPos(j))) # <<-1>>}
      NewKey(m) == LET j2 == IndexOf(new, old[m[2]].id)
                   IN <<BindPos(j2) \o InnerMap(old[m[2]].shape, new[j2].shape, Rel(m[1], BindPos(m[2])))>> \o Tail(m[1])
  IN [k \in {NewKey(m) : m \in moved} |-> cells[(CHOOSE m \in moved : NewKey(m) = k)[1]]]

---------------------------------------------------------------------------
VARIABLES vs, now, st, hist, expectA, nextId, nedits,
          file,     \* the voices of the last version that was saved and compiled (edits are made to this text)
          queue,    \* Live: compiled versions waiting for the audio callback, oldest first
          mask      \* Live: mask[t] = sample t was rendered with nothing waiting (see Callback)
vars == <<vs, now, st, hist, expectA, nextId, nedits, file, queue, mask>>

(* two voices may not offer the diff identically shaped siblings: besides equal shapes, the counter inside an inline *)
(* delay ("idl") is a sibling of the same shape as a "counter" voice                                                  *)
Family(sh) == IF sh \in {"idl", "idl2", "counter"} THEN "has a counter site at dsp level" ELSE sh
DistinctShapes(s) == \A i, j \in 1..Len(s) : i # j => Family(s[i].shape) # Family(s[j].shape)

Init == /\ \E shp \in [1..InitVoices -> ShapeSet] :
             /\ \A i, j \in 1..InitVoices : i # j => shp[i] # shp[j]
             /\ vs = [i \in 1..InitVoices |-> [id |-> i, shape |-> shp[i], k |-> 1, chan |-> "A"]]
        /\ now = 0 /\ nextId = InitVoices + 1 /\ nedits = 0
        /\ st = Boot(Prog(<<>>))
        /\ hist = <<>> /\ expectA = <<>>
        /\ file = vs /\ queue = <<>> /\ mask = <<>>

Start == hist = <<>> /\ hist' = <<[op |-> "start", prog |-> Prog(vs)]>> /\ UNCHANGED <<vs, now, st, expectA, nextId, nedits, file, queue, mask>>

Tick == /\ ~Live /\ hist # <<>> /\ now < NTicks
        /\ LET r == RunSample(Prog(vs), st, now, 0)
           IN st' = r.st /\ expectA' = Append(expectA, r.out[1])
        /\ now' = now + 1
        /\ hist' = Append(hist, [op |-> "tick"])
        /\ UNCHANGED <<vs, nextId, nedits, file, queue, mask>>

Swap(new, label) ==
  /\ hist # <<>> /\ nedits < MaxEdits /\ now < NTicks /\ now \in EditAt
  /\ DistinctShapes(new)
  /\ file' = new
  /\ IF Live THEN /\ queue' = Append(queue, new) /\ UNCHANGED <<vs, st>>
             ELSE /\ vs' = new /\ st' = [st EXCEPT !.S.c = Migrate(st.S.c, vs, new)] /\ UNCHANGED queue
  /\ hist' = Append(hist, [op |-> label, prog |-> Prog(new)])
  /\ nedits' = nedits + 1
  /\ UNCHANGED <<now, expectA, mask>>

RemoveAt(s, i) == SubSeq(s, 1, i-1) \o SubSeq(s, i+1, Len(s))
InsertAt(s, i, x) == SubSeq(s, 1, i-1) \o <<x>> \o SubSeq(s, i, Len(s))

InsertVoice == \E i \in 1..(Len(file) + 1), shp \in ShapeSet :
                 /\ Len(file) < MaxVoices
                 /\ Swap(InsertAt(file, i, [id |-> nextId, shape |-> shp, k |-> 2, chan |-> "B"]), "insert")
                 /\ nextId' = nextId + 1
DeleteVoice == \E i \in 1..Len(file) : Len(file) > 1 /\ Swap(RemoveAt(file, i), "delete") /\ UNCHANGED nextId
(* one save that carries two edits: a voice is deleted and a new one inserted elsewhere (the number of voices stays, *)
(* the survivors change their positions); two voices are deleted at once.  The new voice is not of the deleted      *)
(* voice's shape and shares no kind of state cell with it: otherwise the save can just as well be read as "the     *)
(* voice moved and was edited" (its cells carried into the new voice, the other voice being the one that changed   *)
(* place), and which of two voices that swapped places is the untouched one is not for the property to say.        *)
CellKinds(sh) == CASE sh \in {"counter", "deepc"} -> {"feed1"}
                    [] sh = "lagv" -> {"mem"}
                    [] sh = "dlv" -> {"delay"}
                    [] sh = "nestv" -> {"feed1", "mem"}
                    [] sh = "paccv" -> {"feed2"}
                    [] sh \in {"idl", "idl2"} -> {"feed1", "delay", "mem"}
                    [] OTHER -> {"feed1", "feed2", "mem", "delay"}
DeleteInsert == \E i \in 1..Len(file), j \in 1..Len(file), shp \in ShapeSet :
                  /\ ~Live      \* (the live layer keeps its single-edit saves: its subject is the queue of versions)
                  /\ Len(file) > 1 /\ i # j /\ CellKinds(shp) \cap CellKinds(file[i].shape) = {}
                  /\ Swap(InsertAt(RemoveAt(file, i), j, [id |-> nextId, shape |-> shp, k |-> 2, chan |-> "B"]), "delete_insert")
                  /\ nextId' = nextId + 1
DeleteTwo == \E i, j \in 1..Len(file) : ~Live /\ i < j /\ Len(file) > 2
                  /\ Swap(RemoveAt(RemoveAt(file, j), i), "delete_two") /\ UNCHANGED nextId
ReplaceVoice == \E i \in 1..Len(file), shp \in ShapeSet :
                  /\ shp # file[i].shape
                  /\ Swap([file EXCEPT ![i] = [id |-> nextId, shape |-> shp, k |-> 3, chan |-> "B"]], "replace")
                  /\ nextId' = nextId + 1
ChangeConst == \E i \in 1..Len(file) :
                  /\ Swap([file EXCEPT ![i] = [@ EXCEPT !.k = @ + 4, !.chan = "B"]], "const")
                  /\ UNCHANGED nextId
(* nest a voice one call deeper (counter(k) becomes deep(k) with fn deep(x){ counter(x) }) or back:  *)
(* its state shape changes, so it starts again from zero and counts as touched; its siblings do not *)
NestDeeper == \E i \in 1..Len(file) :
                 /\ DeepOf(file[i].shape) # "none"
                 /\ Swap([file EXCEPT ![i] = [id |-> nextId, shape |-> DeepOf(file[i].shape), k |-> file[i].k, chan |-> "B"]], "nest")
                 /\ nextId' = nextId + 1
UnNest == \E i \in 1..Len(file) :
             /\ file[i].shape = "deepc"
             /\ Swap([file EXCEPT ![i] = [id |-> nextId, shape |-> "counter", k |-> file[i].k, chan |-> "B"]], "unnest")
             /\ nextId' = nextId + 1
(* an edit inside a voice: a stateful site is inserted into (removed from) the operand of an inline delay; the voice *)
(* keeps its identity and its channel: its delay line and its counter are untouched sites                          *)
InnerInsert == \E i \in 1..Len(file) :
                  /\ file[i].shape = "idl"
                  /\ Swap([file EXCEPT ![i] = [@ EXCEPT !.shape = "idl2"]], "inner_insert") /\ UNCHANGED nextId
InnerDelete == \E i \in 1..Len(file) :
                  /\ file[i].shape = "idl2"
                  /\ Swap([file EXCEPT ![i] = [@ EXCEPT !.shape = "idl"]], "inner_delete") /\ UNCHANGED nextId
(* an edit that does not compile: nothing changes *)
BreakCompile == /\ hist # <<>> /\ nedits < MaxEdits /\ now < NTicks /\ now \in EditAt
                /\ hist' = Append(hist, [op |-> "broken"])
                /\ nedits' = nedits + 1
                /\ UNCHANGED <<vs, now, st, expectA, nextId, file, queue, mask>>

(* Live: the file is saved again without a change: the same version is compiled and queued once more *)
Resave == /\ Live /\ Swap(file, "resave") /\ UNCHANGED nextId

(* Live: one invocation of the audio callback with a buffer of F frames: take at most one waiting      *)
(* program and swap it in, then render the frames.  The property does not say *when* a saved edit      *)
(* becomes audible, only what is preserved once it is: a sample rendered while another version is      *)
(* still waiting is not constrained (mask), every other sample is.                                     *)
RECURSIVE RunFrames(_,_,_,_)
RunFrames(prog, s0, t, f) ==
  IF f = 0 THEN [st |-> s0, outs |-> <<>>]
  ELSE LET r == RunSample(prog, s0, t, 0)
           rest == RunFrames(prog, r.st, t + 1, f - 1)
       IN [st |-> rest.st, outs |-> <<r.out[1]>> \o rest.outs]
Callback == \E F \in Frames :
  /\ Live /\ hist # <<>> /\ now + F <= NTicks
  /\ LET take == queue # <<>>
         vs1 == IF take THEN Head(queue) ELSE vs
         st1 == IF take THEN [st EXCEPT !.S.c = Migrate(st.S.c, vs, vs1)] ELSE st
         q1  == IF take THEN Tail(queue) ELSE queue
         r   == RunFrames(Prog(vs1), st1, now, F)
     IN /\ vs' = vs1 /\ queue' = q1 /\ st' = r.st
        /\ expectA' = expectA \o r.outs
        /\ mask' = mask \o [i \in 1..F |-> q1 = <<>>]
  /\ now' = now + F
  /\ hist' = Append(hist, [op |-> "cb", frames |-> F])
  /\ UNCHANGED <<nextId, nedits, file>>

Next == Start \/ Tick \/ Callback \/ Resave \/ InnerInsert \/ InnerDelete \/ InsertVoice \/ DeleteVoice \/ DeleteInsert \/ DeleteTwo \/ ReplaceVoice \/ ChangeConst \/ NestDeeper \/ UnNest \/ BreakCompile
Spec == Init /\ [][Next]_vars

(* on the model: the cells of a voice never touched by an edit are those of the uninterrupted run *)
(* (checked through the outputs of channel A by replay; here: no cell is ever lost or duplicated)  *)
CellsWellFormed == \A key \in DOMAIN st.S.c : \E j \in 1..Len(vs) : IsPrefix(BindPos(j), key[1])

Emit == (now = NTicks /\ nedits > 0) =>
          PrintT(<<"REPLAY", ToJson([hist |-> hist, expectA |-> expectA, mask |-> mask])>>)

(* Live: what is queued is applied in order, one version per callback: the running version and the   *)
(* waiting ones always form a suffix of the versions saved so far, ending with the file               *)
QueueEndsWithFile == (queue # <<>>) => queue[Len(queue)] = file
NothingWaitingMeansFileRuns == (Live /\ queue = <<>> /\ hist # <<>>) => vs = file
=============================================================================

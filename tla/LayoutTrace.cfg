SPECIFICATION Spec
CONSTANTS
  BacktrackMode = "table"
  ScoreMode = "nodes"
CHECK_DEADLOCK FALSE

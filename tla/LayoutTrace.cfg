SPECIFICATION Spec
CONSTANTS
  BacktrackMode = "table"
  ScoreMode = "nodes2"
CHECK_DEADLOCK FALSE

SPECIFICATION SpecPairs
CONSTANTS
  Universe = "small"
  Emit = FALSE
  MaxEdits = 0
  BacktrackMode = "table"
  ScoreMode = "weight"
INVARIANT InvWellFormed
INVARIANT InvNoOp
INVARIANT InvZeroElsewhere
INVARIANT InvCoverDel
INVARIANT InvCoverIns
CHECK_DEADLOCK FALSE

----------------------------- MODULE RuntimeTrace -----------------------------
(***************************************************************************)
(* Outcome contract of a compile-and-run session (property C03) as a trace *)
(* specification.  A record is one program on one back end:                *)
(*   {id, compile, nout, run}                                              *)
(* compile \in {"ok", "rejected"} or the name of an abnormal end; run is   *)
(* the sequence of per-sample outcomes [kind, words] with kind "ok" or the *)
(* abnormal end ("panic: ...", "abort", "timeout", "dsp_error").           *)
(* Behaviours of the specification: Compile returns Rejected(diagnostics)  *)
(* and the session ends, or Ok and Main runs; then Tick repeats, each tick *)
(* returning exactly the declared number of output words.  The accesses of *)
(* state / global / closure storage recorded by the hooks are checked      *)
(* against their capacity by the instrumented runtime itself (strict       *)
(* mode), which turns an access outside its storage into an abnormal end.  *)
(* There is no action for an abnormal end: such a trace is not a behaviour *)
(* of the specification.                                                   *)
(***************************************************************************)
EXTENDS Integers, Sequences, TLC, Json, IOUtils

Rec == ndJsonDeserialize(IOEnv.TRACE)
VARIABLES l, t
vars == <<l, t>>
R == Rec[l]
Init == l = 1 /\ t = 0
NextRecord == /\ l' = l + 1 /\ t' = 0
              /\ (IF l = Len(Rec) THEN PrintT(<<"CONSUMED", ToJson([n |-> Len(Rec)])>>) ELSE TRUE)
Fail(what) == PrintT(<<"FAIL", ToJson([id |-> R.id, at |-> t, what |-> what])>>)

Compile ==
  /\ l <= Len(Rec) /\ t = 0
  /\ IF R.compile = "rejected" THEN NextRecord                       \* Rejected(diagnostics): session over
     ELSE IF R.compile = "ok" THEN (IF Len(R.run) = 0 THEN NextRecord ELSE t' = 1 /\ l' = l)
     ELSE Fail("compile/main ended abnormally: " \o R.compile) /\ NextRecord

Tick ==
  /\ l <= Len(Rec) /\ t >= 1
  /\ LET s == R.run[t] IN
     IF s.kind # "ok" THEN Fail("dsp ended abnormally: " \o s.kind) /\ NextRecord
     ELSE IF s.words # R.nout THEN Fail("dsp yielded a different number of output words than its type declares") /\ NextRecord
     ELSE IF t = Len(R.run) THEN NextRecord
     ELSE t' = t + 1 /\ l' = l
Next == Compile \/ Tick
Spec == Init /\ [][Next]_vars
=============================================================================

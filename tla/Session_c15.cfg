SPECIFICATION Spec
CONSTANTS
  Sources = {s1, s2}
  NProcs = 2
  NThreads = 1
  MaxCompiles = 4
  Seeds = {1, 2}
  Leak = "none"
INVARIANT Deterministic
CHECK_DEADLOCK FALSE

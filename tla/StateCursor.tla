---------------------------- MODULE StateCursor ----------------------------
(***************************************************************************)
(* The bookkeeping that decides where the state of self / mem / delay and  *)
(* of nested stateful calls lives (property C05): a transcription of       *)
(* mirgen.rs (next_state_offset, consume_and_insert_pushoffset, push_sum,  *)
(* the handling of `if`, the position of the `self` cell) that turns a     *)
(* function *shape* into (a) the list of state instructions executed at    *)
(* run time and (b) the published layout, plus the run-time cursor         *)
(* protocol both runtimes follow (GetState/SetState/Mem/Delay access the   *)
(* cursor position; PushStateOffset/PopStateOffset move it; a call runs    *)
(* the callee at the caller's cursor).                                     *)
(*                                                                         *)
(* A shape abstracts a function to its state events in evaluation order:   *)
(*   [k |-> "mem"]   [k |-> "delay", n |-> len]                            *)
(*   [k |-> "call", f |-> shape of the callee (a stateful function)]       *)
(*   [k |-> "if", t |-> events of the then arm, e |-> events of the else]  *)
(*   [k |-> "sw", arms |-> sequence of event sequences] (integer / union   *)
(*                                                       match)            *)
(* and a function is [feed |-> 0 | size of its self cell, body |-> events] *)
(*                                                                         *)
(* TLC enumerates all shapes up to a bound and all branch paths and checks *)
(* that every access lands on a leaf of the published layout with the      *)
(* right kind and size and that the cursor is back at the origin at        *)
(* return.  The predicted event list of every path is printed for replay:  *)
(* the real runtimes, instrumented, must produce exactly these events.     *)
(***************************************************************************)
EXTENDS StateTree, TLC

CONSTANT IfMode   \* "disjoint" (current code: every arm owns its cells)
                  \* "overlap"  (code before the repair: arms share cells, smaller arm padded)

(* ---------- compile: shape -> instructions + layout ---------- *)
(* ctx = [pend |-> -1 or pending offset, sum |-> push_sum, ins |-> instrs, *)
(*        sk |-> children of the layout in publication order]              *)
Flush(c) == IF c.pend >= 0
            THEN [c EXCEPT !.pend = -1, !.sum = c.sum + c.pend,
                           !.ins = Append(c.ins, [op |-> "push", n |-> c.pend])]
            ELSE c

RECURSIVE SizeSeq(_)
SizeSeq(sk) == IF sk = <<>> THEN 0 ELSE Size(Head(sk)) + SizeSeq(Tail(sk))

PushIns(n) == IF n > 0 THEN <<[op |-> "push", n |-> n]>> ELSE <<>>
EmptyCtx == [pend |-> -1, sum |-> 0, ins |-> <<>>, sk |-> <<>>]

RECURSIVE CompFn(_), CompSeq(_,_), CompEv(_,_)

CompEv(c, ev) ==
  CASE ev.k = "mem" ->
         LET c1 == Flush(c)
         IN [c1 EXCEPT !.pend = 1, !.ins = Append(c1.ins, [op |-> "mem"]),
                       !.sk = Append(c1.sk, Leaf("mem", 1))]
    [] ev.k = "delay" ->
         LET c1 == Flush(c)
         IN [c1 EXCEPT !.pend = ev.n + 2, !.ins = Append(c1.ins, [op |-> "delay", n |-> ev.n]),
                       !.sk = Append(c1.sk, Leaf("delay", ev.n))]
    [] ev.k = "call" ->
         LET c1 == Flush(c)
             callee == CompFn(ev.f)
         IN [c1 EXCEPT !.pend = Size(callee.sk),
                       !.ins = Append(c1.ins, [op |-> "call", body |-> callee.ins]),
                       !.sk = Append(c1.sk, callee.sk)]
    [] ev.k \in {"if", "sw"} ->
         LET arms == IF ev.k = "if" THEN <<ev.t, ev.e>> ELSE ev.arms IN
         IF IfMode = "disjoint"
         THEN \* begin_branch_arms: nothing pending when the paths split; begin/end_branch_arm: each
              \* arm from a clean context, flushed at its end; finish_branch_arms: arm i first skips
              \* the cells of the arms before it and finally those of the arms after it
              LET c0 == Flush(c)
                  ca == [i \in 1..Len(arms) |-> Flush(CompSeq(EmptyCtx, arms[i]))]
                  sz == [i \in 1..Len(arms) |-> SizeSeq(ca[i].sk)]
                  Before[i \in 1..Len(arms)] == IF i = 1 THEN 0 ELSE Before[i-1] + sz[i-1]
                  total == IF Len(arms) = 0 THEN 0 ELSE Before[Len(arms)] + sz[Len(arms)]
                  RECURSIVE Cat(_)
                  Cat(i) == IF i > Len(arms) THEN <<>> ELSE ca[i].sk \o Cat(i + 1)
              IN [pend |-> -1, sum |-> c0.sum + total,
                  ins |-> Append(c0.ins,
                            [op |-> "br",
                             arms |-> [i \in 1..Len(arms) |->
                                         PushIns(Before[i]) \o ca[i].ins \o PushIns(total - Before[i] - sz[i])]]),
                  sk |-> c0.sk \o Cat(1)]
         ELSE \* `if` as built before the repair: the pending offset leaks into the then arm, the else
              \* arm continues with the context left by the then arm, the smaller arm is padded
              \* (not counted in push_sum), only the larger arm is published
              LET ct == CompSeq([c EXCEPT !.ins = <<>>, !.sk = <<>>], arms[1])
                  ce == CompSeq([ct EXCEPT !.ins = <<>>, !.sk = <<>>], arms[2])
                  T  == SizeSeq(ct.sk)
                  E  == SizeSeq(ce.sk)
                  tins == IF T < E THEN Append(ct.ins, [op |-> "push", n |-> E - T]) ELSE ct.ins
                  eins == IF E < T THEN Append(ce.ins, [op |-> "push", n |-> T - E]) ELSE ce.ins
              IN [pend |-> ce.pend, sum |-> ce.sum,
                  ins |-> Append(c.ins, [op |-> "br", arms |-> <<tins, eins>>]),
                  sk |-> c.sk \o (IF T >= E THEN ct.sk ELSE ce.sk)]

CompSeq(c, evs) == IF evs = <<>> THEN c ELSE CompSeq(CompEv(c, Head(evs)), Tail(evs))

(* a function: GetState first (self read at the origin, its size pending),  *)
(* body, PopStateOffset(push_sum), SetState; the self cell is published     *)
(* first                                                                    *)
CompFn(f) ==
  LET c0 == [pend |-> (IF f.feed > 0 THEN f.feed ELSE -1), sum |-> 0,
             ins |-> (IF f.feed > 0 THEN <<[op |-> "get", n |-> f.feed]>> ELSE <<>>),
             sk |-> <<>>]
      c1 == CompSeq(c0, f.body)
      tail == (IF c1.sum > 0 THEN <<[op |-> "pop", n |-> c1.sum]>> ELSE <<>>)
              \o (IF f.feed > 0 THEN <<[op |-> "set", n |-> f.feed]>> ELSE <<>>)
  IN [ins |-> c1.ins \o tail,
      sk |-> Fn((IF f.feed > 0 THEN <<Leaf("feed", f.feed)>> ELSE <<>>) \o c1.sk)]

(* ---------- run: all paths; a path is the sequence of branch choices ---------- *)
KindOf(op) == CASE op \in {"get", "set"} -> "feed" [] op = "mem" -> "mem" [] op = "delay" -> "delay"
SizeOfIns(i) == CASE i.op \in {"get", "set"} -> i.n [] i.op = "mem" -> 1 [] i.op = "delay" -> i.n + 2

(* Run(ins, cur, path) = set of [ev |-> sequence of events [op,pos,size], cur |-> final cursor,   *)
(*                               path |-> branch choices taken ("t"/"e"), ok |-> no underflow]    *)
RECURSIVE Run(_,_,_,_)
Run(ins, cur, evs, path) ==
  IF ins = <<>> THEN {[ev |-> evs, cur |-> cur, path |-> path, ok |-> TRUE]}
  ELSE LET i == Head(ins)
           rest == Tail(ins)
       IN CASE i.op = "push" -> Run(rest, cur + i.n, Append(evs, [op |-> "push", pos |-> cur, size |-> i.n]), path)
            [] i.op = "pop" ->
                 IF cur - i.n < 0
                 THEN {[ev |-> Append(evs, [op |-> "pop", pos |-> cur, size |-> i.n]), cur |-> cur - i.n,
                        path |-> path, ok |-> FALSE]}
                 ELSE Run(rest, cur - i.n, Append(evs, [op |-> "pop", pos |-> cur, size |-> i.n]), path)
            [] i.op = "br" -> UNION {Run(i.arms[a] \o rest, cur, evs, Append(path, a)) : a \in 1..Len(i.arms)}
            [] i.op = "call" -> Run(i.body \o rest, cur, evs, path)
            [] OTHER -> Run(rest, cur, Append(evs, [op |-> i.op, pos |-> cur, size |-> SizeOfIns(i)]), path)

Runs(f) == Run(CompFn(f).ins, 0, <<>>, <<>>)

(* ---------- C05 on the model ---------- *)
AccessOk(L, total, e) ==
  \/ e.op \in {"push", "pop"}
  \/ /\ e.pos + e.size <= total
     /\ [off |-> e.pos, size |-> e.size, kind |-> KindOf(e.op)] \in L

LayoutMatches(f) ==
  LET c == CompFn(f)
      L == Leaves(c.sk)
      total == Size(c.sk)
  IN \A r \in Run(c.ins, 0, <<>>, <<>>) :
        /\ r.ok
        /\ r.cur = 0
        /\ \A i \in 1..Len(r.ev) : AccessOk(L, total, r.ev[i])

(* every cell of the layout is used by exactly the accesses of one site on some path:  *)
(* distinct sites never share a cell (the per-call-site ownership C02 relies on)       *)
=============================================================================

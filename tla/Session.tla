------------------------------ MODULE Session ------------------------------
(***************************************************************************)
(* Compilation sessions (properties C15 and C19).                          *)
(*                                                                         *)
(* A process carries state that outlives one compilation: the global       *)
(* interner (symbols, expression and type nodes), the counters that name   *)
(* anonymous functions and inference variables, and the seed of its hash   *)
(* maps.  Every Compile moves that state.  What a compilation *yields*     *)
(* (bytecode listing, WASM bytes, state layout, outputs, diagnostics) must *)
(* be a function of the source and the plugin set alone.                   *)
(*                                                                         *)
(* A source may be *faulty*: its compilation ends in a panic (a macro-stage *)
(* primitive fed malformed input, an unsupported shape in code generation).*)
(* That panic is the job's own result - the same alone and next to other   *)
(* threads - and must not reach anybody else.  The session lock is a       *)
(* mutex that is poisoned by a panic of its holder: under Leak = "poison"  *)
(* the faulty job panics while it holds the lock, and every later          *)
(* acquisition, by any thread, fails.                                      *)
(*                                                                         *)
(* `seen[s]` collects every artifact observed for source s - over all      *)
(* processes, all histories within a process and (C19) all interleavings   *)
(* of the threads of a process.  Deterministic: no source has two.         *)
(*                                                                         *)
(* The constant Leak names what the artifact depends on beyond the source; *)
(* "none" is the compiler the property describes, the other values are the *)
(* realistic defects (an interned id printed into a listing, a lambda_N    *)
(* counter that is not reset, hash-map iteration order reaching section    *)
(* order, a thread reading the interner entry another thread is writing).  *)
(* TLC shows Deterministic holds for "none" and fails for each of them, so *)
(* the histories the harness drives (repetition after other sources, fresh *)
(* processes, concurrent threads) are the ones that expose each leak.      *)
(***************************************************************************)
EXTENDS Integers, Sequences, FiniteSets, TLC

CONSTANTS Sources,      \* source texts (model values)
          NProcs,       \* processes
          NThreads,     \* threads per process (1 for C15)
          MaxCompiles,  \* compilations per history
          Seeds,        \* hash seeds a process may draw
          Leak          \* "none" | "interner" | "lambda" | "hashseed" | "race" | "poison"

VARIABLES proc,         \* index of the running process
          interner,     \* size of the process-wide interner
          lambdas,      \* anonymous-function counter of the process
          seed,         \* hash seed of the process
          pc,           \* per thread: <<"idle">> | <<"interning", s>> (inside the interner lock region)
          dirty,        \* the interner entry being written (race leak only)
          env,          \* the process environment variable naming the file being macro-expanded:
                        \* {} (unset) or {s}
          saved,        \* per thread: the value its guard found and will put back
          lock,         \* the session mutex: "ok" | "poisoned" (a holder panicked)
          seen, ncomp
vars == <<proc, interner, lambdas, seed, pc, dirty, env, saved, lock, seen, ncomp>>

Faulty == IF Cardinality(Sources) >= 2 /\ Leak \in {"none", "poison"} THEN {CHOOSE s \in Sources : TRUE} ELSE {}

Threads == 1..NThreads
Idle == <<"idle">>
Size(s) == 2            \* names a source adds to the interner

Init == /\ proc = 1 /\ interner = 0 /\ lambdas = 0 /\ seed \in Seeds
        /\ pc = [t \in Threads |-> Idle] /\ dirty = {}
        /\ env = {} /\ saved = [t \in Threads |-> {}] /\ lock = "ok"
        /\ seen = [s \in Sources |-> {}] /\ ncomp = 0

Artifact(s, t) ==
  CASE lock = "poisoned" -> <<s, "panic: the session lock is poisoned">>
    [] s \in Faulty      -> <<s, "panic of its own">>
    [] Leak = "none"     -> <<s>>
    [] Leak = "poison"   -> <<s>>
    [] Leak = "interner" -> <<s, interner>>
    [] Leak = "lambda"   -> <<s, lambdas>>
    [] Leak = "hashseed" -> <<s, seed>>
    [] Leak = "race"     -> <<s, IF dirty \notin {{}, {s}} THEN dirty ELSE {s}>>

(* a compilation is two steps so that threads interleave: intern the source's names, then emit *)
Begin(t, s) == /\ pc[t] = Idle /\ ncomp < MaxCompiles
               /\ pc' = [pc EXCEPT ![t] = <<"interning", s>>]
               /\ interner' = interner + Size(s)
               /\ dirty' = IF Leak = "race" THEN {s} ELSE dirty
               /\ ncomp' = ncomp + 1
               \* MacroFileEnvGuard::new: remember what is there, publish the own file
               /\ saved' = [saved EXCEPT ![t] = env] /\ env' = {s}
               /\ UNCHANGED <<proc, lambdas, seed, seen, lock>>
Finish(t) == /\ pc[t] # Idle
             /\ LET s == pc[t][2] IN seen' = [seen EXCEPT ![s] = @ \cup {Artifact(s, t)}]
             /\ pc' = [pc EXCEPT ![t] = Idle]
             /\ lambdas' = lambdas + 1
             /\ dirty' = {}
             \* MacroFileEnvGuard::drop: put back what was found
             /\ env' = saved[t] /\ UNCHANGED saved
             \* the panic of a faulty job: outside the lock it concerns nobody else; inside it poisons the lock
             /\ lock' = IF Leak = "poison" /\ pc[t][2] \in Faulty THEN "poisoned" ELSE lock
             /\ UNCHANGED <<proc, interner, seed, ncomp>>
NewProcess == /\ proc < NProcs /\ \A t \in Threads : pc[t] = Idle
              /\ proc' = proc + 1 /\ interner' = 0 /\ lambdas' = 0 /\ seed' \in Seeds
              /\ dirty' = {} /\ env' = {} /\ lock' = "ok"
              /\ UNCHANGED <<pc, saved, seen, ncomp>>

Next == (\E t \in Threads, s \in Sources : Begin(t, s)) \/ (\E t \in Threads : Finish(t)) \/ NewProcess
Spec == Init /\ [][Next]_vars

Deterministic == \A s \in Sources : Cardinality(seen[s]) <= 1
(* the environment variable: while a thread expands macros it names that thread's file, and *)
(* when nobody compiles it is unset again (what a plugin resolving relative paths relies on)  *)
EnvOwn == \A t \in Threads : pc[t] # Idle => env = {pc[t][2]}
EnvRestored == (\A t \in Threads : pc[t] = Idle) => env = {}
(* every started compilation can finish: no interleaving blocks a thread for good *)
NoStuckThread == \A t \in Threads : pc[t] # Idle => ENABLED Finish(t)
=============================================================================

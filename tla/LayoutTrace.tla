----------------------------- MODULE LayoutTrace -----------------------------
(***************************************************************************)
(* Trace validation for C05 (impl -> spec): every record is one run of a   *)
(* program with the state hooks on: {id, skel, samples} where skel is the  *)
(* layout the compiler published for dsp and samples[t] is the sequence of *)
(* state events [op, pos, size] the runtime performed on dsp's storage     *)
(* during sample t, followed by the cursor position after the sample.      *)
(* A sample is accepted iff every access lands on a leaf of the published  *)
(* layout with the access' kind and size, inside the storage sized from    *)
(* the layout, no cursor move leaves the storage downwards, and the cursor *)
(* is back at the origin when dsp returns.                                 *)
(***************************************************************************)
EXTENDS StateTree, TLC, Json, IOUtils

Rec == ndJsonDeserialize(IOEnv.TRACE)

VARIABLES l, t
vars == <<l, t>>
R == Rec[l]
Init == l = 1 /\ t = 1

KindOf(op) == CASE op \in {"get", "set"} -> "feed" [] op = "mem" -> "mem" [] op = "delay" -> "delay"
                [] OTHER -> "none"

BadEvents(L, total, evs) ==
  {i \in 1..Len(evs) :
     LET e == evs[i] IN
     IF e[1] = "push" THEN FALSE
     ELSE IF e[1] = "pop" THEN e[2] - e[3] < 0
     ELSE ~(/\ e[2] + e[3] <= total
            /\ [off |-> e[2], size |-> e[3], kind |-> KindOf(e[1])] \in L)}

NextRecord == /\ l' = l + 1 /\ t' = 1
              /\ (IF l = Len(Rec) THEN PrintT(<<"CONSUMED", ToJson([n |-> Len(Rec)])>>) ELSE TRUE)

Sample ==
  /\ l <= Len(Rec)
  /\ IF t > Len(R.samples) THEN NextRecord
     ELSE LET L == Leaves(R.skel)
              total == Size(R.skel)
              s == R.samples[t]
              bad == BadEvents(L, total, s.ev)
          IN IF bad # {} \/ s.cursor # 0
             THEN /\ PrintT(<<"FAIL", ToJson([id |-> R.id, at |-> t - 1,
                                 what |-> IF bad # {} THEN "access outside the published layout"
                                          ELSE "cursor not at origin after dsp",
                                 ev |-> IF bad # {} THEN s.ev[CHOOSE i \in bad : TRUE] ELSE <<"cursor", s.cursor, 0>>])>>)
                  /\ NextRecord
             ELSE t' = t + 1 /\ l' = l
Spec == Init /\ [][Sample]_vars
=============================================================================

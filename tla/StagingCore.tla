---------------------------- MODULE StagingCore ----------------------------
(***************************************************************************)
(* Multi-stage programs: the macro stage and expansion (C09, C10).         *)
(*                                                                         *)
(* The macro stage is a small functional language of its own: its values   *)
(* are numbers, functions and *code* (an AST of Lang).  A stage-1 program  *)
(* enters it through a splice $(m) or the sugar f!(args); a macro-stage    *)
(* expression builds code with the quote `{ t }, whose template t may      *)
(* splice again.  Expansion (ExpandProg) evaluates every splice and leaves *)
(* an ordinary Lang program; what a staged program *means* is what Lang    *)
(* says about its expansion.                                               *)
(*                                                                         *)
(* Expansion is lexically scoped (hygienic): every evaluation of a quote   *)
(* renames the binders the template introduces to names that occur nowhere *)
(* else, so they can neither capture a variable of spliced code nor be     *)
(* captured.  With Mode = "name_based" the binders keep their names -      *)
(* expansion as plain text substitution - which is what C10 forbids; the   *)
(* mode exists to show that the C10 invariant is not vacuous and to        *)
(* predict what a name-based implementation prints.                        *)
(***************************************************************************)
EXTENDS Lang

CONSTANT Mode          \* "hygienic" | "name_based"

(* macro-stage expressions *)
MQ(t)         == [k |-> "mq", t |-> t]                       \* `{ t }
MV(x)         == [k |-> "mv", x |-> x]
MNum(n)       == [k |-> "mnum", v |-> n]
MBin(op, a, b) == [k |-> "mbin", op |-> op, a |-> a, b |-> b]
MIf(c, t, e)  == [k |-> "mif", c |-> c, t |-> t, e |-> e]
MLet(x, a, b) == [k |-> "mlet", x |-> x, a |-> a, b |-> b]
MCall(f, as)  == [k |-> "mcall", f |-> f, as |-> as]         \* f: a macro function or a variable holding one
MFn(f)        == [k |-> "mfn", f |-> f]                      \* a macro function as a value
MLift(a)      == [k |-> "mlift", a |-> a]                    \* lift_f(a): the number a as code
(* stage-1 nodes that enter the macro stage *)
Splice(m)       == [k |-> "splice", m |-> m]                 \* $(m)
MacroApp(f, as) == [k |-> "macroapp", f |-> f, as |-> as]    \* f!(as), sugar for $(f(as))

FreshName(x, n) == IF Mode = "hygienic" THEN x \o "_" \o ToString(n) ELSE x

Ext(env, xs, vs) == [y \in DOMAIN env \cup {xs[i] : i \in 1..Len(xs)} |->
                       IF \E i \in 1..Len(xs) : xs[i] = y
                       THEN vs[CHOOSE i \in 1..Len(xs) : xs[i] = y /\ \A j \in (i+1)..Len(xs) : xs[j] # y]
                       ELSE env[y]]

Leaf(e) == e.k \in {"lit", "var", "now", "sr", "self"}
Kids(e) == CASE e.k \in {"neg", "mem", "proj"} -> <<e.a>>
             [] e.k = "bin"   -> <<e.a, e.b>>
             [] e.k = "if"    -> <<e.c, e.t, e.e>>
             [] e.k = "tup"   -> e.es
             [] e.k = "app"   -> <<e.f>> \o e.as
             [] e.k = "call"  -> e.as
             [] e.k = "delay" -> <<e.a, e.t>>
             [] OTHER -> <<>>
Rebuild(e, ks) ==
  CASE e.k \in {"neg", "mem", "proj"} -> [e EXCEPT !.a = ks[1]]
    [] e.k = "bin"   -> [e EXCEPT !.a = ks[1], !.b = ks[2]]
    [] e.k = "if"    -> [e EXCEPT !.c = ks[1], !.t = ks[2], !.e = ks[3]]
    [] e.k = "tup"   -> [e EXCEPT !.es = ks]
    [] e.k = "app"   -> [e EXCEPT !.f = ks[1], !.as = Tail(ks)]
    [] e.k = "call"  -> [e EXCEPT !.as = ks]
    [] e.k = "delay" -> [e EXCEPT !.a = ks[1], !.t = ks[2]]
    [] OTHER -> e

RECURSIVE MEval(_,_,_,_), MEvalSeq(_,_,_,_), Inst(_,_,_,_,_,_), InstSeq(_,_,_,_,_,_)

(* Inst(M, t, menv, ren, q, n) = [e |-> Lang AST without staging nodes, n |-> next fresh index]   *)
(*   M: macro functions   menv: macro-stage environment   ren: template binder -> its fresh name  *)
(*   q: TRUE inside a quote (binders are renamed), FALSE in ordinary stage-1 code                 *)
Inst(M, t, menv, ren, q, n) ==
  CASE t.k = "splice" ->
         LET r == MEval(M, t.m, menv, n) IN [e |-> r.v.code, n |-> r.n]
    [] t.k = "macroapp" ->
         LET r == MEval(M, MCall(t.f, t.as), menv, n) IN [e |-> r.v.code, n |-> r.n]
    [] t.k = "var" -> [e |-> IF t.x \in DOMAIN ren THEN Var(ren[t.x]) ELSE t, n |-> n]
    [] t.k \in {"lit", "now", "sr", "self"} -> [e |-> t, n |-> n]
    [] t.k = "let" ->
         LET x2 == IF q THEN FreshName(t.x, n) ELSE t.x
             ra == Inst(M, t.a, menv, ren, q, n + 1)
             rb == Inst(M, t.b, menv, IF q THEN Ext(ren, <<t.x>>, <<x2>>) ELSE ren, q, ra.n)
         IN [e |-> Let(x2, ra.e, rb.e), n |-> rb.n]
    [] t.k = "lett" ->
         LET xs2 == [i \in 1..Len(t.xs) |-> IF q THEN FreshName(t.xs[i], n + i - 1) ELSE t.xs[i]]
             ra == Inst(M, t.a, menv, ren, q, n + Len(t.xs))
             rb == Inst(M, t.b, menv, IF q THEN Ext(ren, t.xs, xs2) ELSE ren, q, ra.n)
         IN [e |-> LetT(xs2, ra.e, rb.e), n |-> rb.n]
    [] t.k = "asg" ->
         LET ra == Inst(M, t.a, menv, ren, q, n)
             rb == Inst(M, t.b, menv, ren, q, ra.n)
         IN [e |-> Asg(IF t.x \in DOMAIN ren THEN ren[t.x] ELSE t.x, ra.e, rb.e), n |-> rb.n]
    [] t.k = "lam" ->
         LET ps2 == [i \in 1..Len(t.ps) |-> IF q THEN FreshName(t.ps[i], n + i - 1) ELSE t.ps[i]]
             rb == Inst(M, t.b, menv, IF q THEN Ext(ren, t.ps, ps2) ELSE ren, q, n + Len(t.ps))
         IN [e |-> Lam(ps2, rb.e), n |-> rb.n]
    [] OTHER ->
         LET rk == InstSeq(M, Kids(t), menv, ren, q, n) IN [e |-> Rebuild(t, rk.es), n |-> rk.n]

InstSeq(M, ts, menv, ren, q, n) ==
  IF ts = <<>> THEN [es |-> <<>>, n |-> n]
  ELSE LET r1 == Inst(M, Head(ts), menv, ren, q, n)
           r2 == InstSeq(M, Tail(ts), menv, ren, q, r1.n)
       IN [es |-> <<r1.e>> \o r2.es, n |-> r2.n]

(* MEval(M, m, menv, n) = [v |-> number | [code |-> AST] | [mfn |-> name], n |-> next fresh index] *)
MEval(M, m, menv, n) ==
  CASE m.k = "mq"   -> LET r == Inst(M, m.t, menv, <<>>, TRUE, n) IN [v |-> [code |-> r.e], n |-> r.n]
    [] m.k = "mv"   -> [v |-> menv[m.x], n |-> n]
    [] m.k = "mnum" -> [v |-> m.v, n |-> n]
    [] m.k = "mfn"  -> [v |-> [mfn |-> m.f], n |-> n]
    [] m.k = "mbin" ->
         LET ra == MEval(M, m.a, menv, n)
             rb == MEval(M, m.b, menv, ra.n)
         IN [v |-> BinOp(m.op, ra.v, rb.v), n |-> rb.n]
    [] m.k = "mif"  ->
         LET rc == MEval(M, m.c, menv, n)
         IN IF rc.v > 0 THEN MEval(M, m.t, menv, rc.n) ELSE MEval(M, m.e, menv, rc.n)
    [] m.k = "mlet" ->
         LET ra == MEval(M, m.a, menv, n)
         IN MEval(M, m.b, Ext(menv, <<m.x>>, <<ra.v>>), ra.n)
    [] m.k = "mlift" ->
         LET ra == MEval(M, m.a, menv, n) IN [v |-> [code |-> Lit(ra.v)], n |-> ra.n]
    [] m.k = "mcall" ->
         LET f  == IF m.f \in DOMAIN menv THEN menv[m.f].mfn ELSE m.f
             ra == MEvalSeq(M, m.as, menv, n)
         IN \* macro functions are closed: the body sees its parameters only
            MEval(M, M[f].b, Ext(<<>>, M[f].ps, ra.vs), ra.n)

MEvalSeq(M, ms, menv, n) ==
  IF ms = <<>> THEN [vs |-> <<>>, n |-> n]
  ELSE LET r1 == MEval(M, Head(ms), menv, n)
           r2 == MEvalSeq(M, Tail(ms), menv, r1.n)
       IN [vs |-> <<r1.v>> \o r2.vs, n |-> r2.n]

(* a staged program is a Lang program record with one more field, `macros`; its expansion *)
ExpandProg(sp) ==
  [nout |-> sp.nout, globals |-> sp.globals,
   fns |-> [f \in DOMAIN sp.fns |-> [sp.fns[f] EXCEPT !.b = Inst(sp.macros, sp.fns[f].b, <<>>, <<>>, FALSE, 1).e]]]

=============================================================================

SPECIFICATION Spec
CONSTANTS
  NTicks = 4
  MaxEdits = 2
  MaxVoices = 3
  InitVoices = 2
  EditAt = {0, 1, 2}
  Live = TRUE
  Frames = {1, 2}
INVARIANT CellsWellFormed
INVARIANT QueueEndsWithFile
INVARIANT NothingWaitingMeansFileRuns
INVARIANT Emit
CHECK_DEADLOCK FALSE

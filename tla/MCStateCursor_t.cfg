SPECIFICATION Spec
CONSTANTS
  MaxEvents = 1
  MaxArm = 2
  NestIf = FALSE
  AtomSet = "small"
  Sw = TRUE
  Emit = FALSE
  IfMode = "disjoint"
  BacktrackMode = "table"
  ScoreMode = "nodes2"
INVARIANT InvLayout
CHECK_DEADLOCK FALSE

------------------------------- MODULE Modules -------------------------------
(***************************************************************************)
(* Module privacy and name resolution (property C17), exhaustive small     *)
(* scope.  The module tree is                                              *)
(*                                                                         *)
(*   mod m { [pub] fn a = 1   [pub] fn b = 2                               *)
(*           [pub] mod n { [pub] fn a = 3 }                                *)
(*           pub fn im() = <reference evaluated inside m> }                *)
(*   mod k { [pub] use m::<re-exported member>                             *)
(*           pub fn ik() = <reference evaluated inside k> }                *)
(*   [let r = <reference evaluated in a global initialiser>]               *)
(*   fn dsp() = <reference evaluated at the root>  (or a call of im / ik,  *)
(*              or r)                                                      *)
(*                                                                         *)
(* with every choice of the pub flags, of what k re-exports and whether    *)
(* publicly, of the form of the reference and of the position from which   *)
(* it is made.  Resolve gives what the language promises: the constant of  *)
(* the definition the path denotes, or Private / NotFound.                 *)
(***************************************************************************)
EXTENDS Integers, Sequences, FiniteSets, TLC, Json

CONSTANT Emit

Members == {"a", "b", "na"}                 \* m::a, m::b, m::n::a
Const(x) == CASE x = "a" -> 1 [] x = "b" -> 2 [] x = "na" -> 3
Forms == {"qual",       \* m::a() / m::b() / m::n::a()
          "use1",       \* use m::a ... a()
          "usemulti",   \* use m::{a, b} ... target()
          "wild",       \* use m::* ... target()        (use m::n::* for na)
          "reexport",   \* k::target()                   (k re-exports it)
          "shadow",     \* use m::target; let target = | | 7; target()
          "facade2",    \* three levels: mod m { mod n { [pub] mod h { [pub] fn c = 3 } }  [pub] use n::h::c }  ...  m::c()
                        \* (the flag pubB stands for `pub mod h` here)
          \* three levels, referred to directly: mod m { [pub] mod n { [pub] mod h { [pub] fn c = 3 } } ... }
          "deepq",      \*   inside m:              pub fn im(){ n::h::c() }
          "deepuse",    \*   inside m:              use n::h::c   pub fn im(){ c() }
          "deepwild",   \*   inside m:              use m::n::h::*   pub fn im(){ c() }
          "deepsib",    \*   in a sibling of n:     mod s { pub fn via(){ m::n::h::c() } }
          "deeproot",   \*   at the root:           m::n::h::c()
          "bare",       \* a() / b() with no import at all: the name of a module member is not in scope outside
          "facade"}     \* m itself re-exports a member of its own (private or public) submodule:
                        \* mod m { [pub] mod n { [pub] fn c = 3 }  [pub] use n::c }  ...  m::c()
Positions == {"root", "ink", "inm",
              "glet"}    \* a global `let r = <reference>` right after the modules (dsp returns r)

VARIABLES cfg, phase
vars == <<cfg, phase>>
Cfgs == [pubA : BOOLEAN, pubB : BOOLEAN, pubN : BOOLEAN, pubNA : BOOLEAN,
         reexp : Members \cup {"none"}, reexpPub : BOOLEAN,
         target : Members, form : Forms, pos : Positions]
Init == phase = 0 /\ cfg = CHOOSE c \in Cfgs : TRUE
Pick == phase = 0 /\ phase' = 1 /\ cfg' \in Cfgs
Next == Pick
Spec == Init /\ [][Next]_vars

(* is member x of m declared pub along its whole path below m? *)
PubIn(c, x) == CASE x = "a" -> c.pubA [] x = "b" -> c.pubB [] x = "na" -> c.pubN /\ c.pubNA

(* visible from a position: inside m everything of m is visible except that a private member *)
(* of the nested module n stays private to n                                                 *)
Visible(c, x, pos) ==
  IF pos = "inm" THEN (x # "na" \/ c.pubNA) ELSE PubIn(c, x)

Deep == {"deepq", "deepuse", "deepwild", "deepsib", "deeproot"}
(* which references are meaningful programs in this scope *)
Applicable(c) ==
  /\ (c.form = "reexport" => (c.reexp = c.target /\ c.pos = "root"))
  /\ (c.form \notin {"reexport", "facade", "facade2"} => c.reexp = "none" /\ c.reexpPub = FALSE)  \* only varied for re-exports
  /\ (c.form \in {"facade", "facade2"} \cup Deep => c.reexp = "none" /\ c.target = "na" /\ c.pos = "root")
  /\ (c.form \in Deep => c.pubA = FALSE)      \* (pubA is not used by these forms)
  /\ (c.form = "usemulti" => c.target \in {"a", "b"})
  /\ (c.pos = "inm" => c.form \in {"qual"})                                 \* inside m: plain sibling references
  /\ (c.pos = "glet" => c.form \in {"qual", "bare"})
  /\ (c.form = "bare" => c.pos \in {"root", "glet"} /\ c.target \in {"a", "b"})

(* the answer the language promises: [ok |-> TRUE, val |-> constant] or [ok |-> FALSE] *)
Resolve(c) ==
  CASE c.form = "shadow" ->
         \* the local binding wins; whether an import of an invisible member that is never used
         \* must itself be refused is not something the property settles: either answer is allowed
         IF Visible(c, c.target, c.pos) THEN [ok |-> TRUE, val |-> 7, either |-> FALSE]
         ELSE [ok |-> TRUE, val |-> 7, either |-> TRUE]
    [] c.form = "bare" -> [ok |-> FALSE, val |-> 0, either |-> FALSE]
    [] c.form = "usemulti" ->
         \* use m::{a, b}: the member that is used must be visible; an invisible member that is
         \* imported alongside but never used may or may not be refused
         IF ~Visible(c, c.target, c.pos) THEN [ok |-> FALSE, val |-> 0, either |-> FALSE]
         ELSE [ok |-> TRUE, val |-> Const(c.target),
               either |-> ~(Visible(c, "a", c.pos) /\ Visible(c, "b", c.pos))]
    [] c.form = "facade" ->
         \* m is the parent of n: it sees n whether or not n is pub; the member must be pub in n
         \* and the re-export public
         IF c.pubNA /\ c.reexpPub THEN [ok |-> TRUE, val |-> 3, either |-> FALSE]
         ELSE [ok |-> FALSE, val |-> 0, either |-> FALSE]
    [] c.form = "facade2" ->
         \* m sees its child n, but a module h that n keeps private is n's own: m may re-export
         \* n::h::c only if h and c are pub, and the re-export itself must be public
         IF c.pubB /\ c.pubNA /\ c.reexpPub THEN [ok |-> TRUE, val |-> 3, either |-> FALSE]
         ELSE [ok |-> FALSE, val |-> 0, either |-> FALSE]
    [] c.form \in {"deepq", "deepuse", "deepwild", "deepsib"} ->
         \* from inside m (or a module inside m) the child n is visible whether or not it is pub; h is n's own: it
         \* must be pub, and so must c (flags: pubB = pub mod h, pubNA = pub fn c, pubN = pub mod n)
         IF c.pubB /\ c.pubNA THEN [ok |-> TRUE, val |-> 3, either |-> FALSE]
         ELSE [ok |-> FALSE, val |-> 0, either |-> FALSE]
    [] c.form = "deeproot" ->
         IF c.pubN /\ c.pubB /\ c.pubNA THEN [ok |-> TRUE, val |-> 3, either |-> FALSE]
         ELSE [ok |-> FALSE, val |-> 0, either |-> FALSE]
    [] c.form = "reexport" ->
         \* k may re-export only what it can see itself, and the re-export must be public
         IF Visible(c, c.target, "ink") /\ c.reexpPub
         THEN [ok |-> TRUE, val |-> Const(c.target), either |-> FALSE]
         ELSE [ok |-> FALSE, val |-> 0, either |-> FALSE]
    [] OTHER ->
         IF Visible(c, c.target, c.pos) THEN [ok |-> TRUE, val |-> Const(c.target), either |-> FALSE]
         ELSE [ok |-> FALSE, val |-> 0, either |-> FALSE]

(* sanity of the scope itself: a private member is never resolved from outside its module *)
PrivacyHolds ==
  (phase = 1 /\ Applicable(cfg) /\ cfg.pos # "inm" /\ ~PubIn(cfg, cfg.target) /\ cfg.form \notin {"shadow", "facade", "facade2"} \cup Deep)
     => ~Resolve(cfg).ok

InvEmit == (Emit /\ phase = 1 /\ Applicable(cfg)) =>
   PrintT(<<"REPLAY", ToJson([cfg |-> cfg, ok |-> Resolve(cfg).ok, val |-> Resolve(cfg).val,
                                     either |-> Resolve(cfg).either])>>)
=============================================================================

SPECIFICATION Spec
CONSTANTS
  NTicks = 6
  MaxEdits = 2
  MaxVoices = 3
  InitVoices = 2
  EditAt = {0, 1, 2, 3, 4}
  Live = TRUE
  ShapeSet = {"counter", "lagv", "dlv", "nestv", "paccv"}
  Frames = {1, 2}
INVARIANT CellsWellFormed
INVARIANT QueueEndsWithFile
INVARIANT NothingWaitingMeansFileRuns
INVARIANT Emit
CHECK_DEADLOCK FALSE

------------------------------ MODULE Runtime ------------------------------
(***************************************************************************)
(* The live-coding runtime as a state machine over a LangGen-generated     *)
(* program: boot (run the global initialisers), tick (one dsp call, `now`  *)
(* advances) and hot swap to a fresh compilation of the *same* source.     *)
(*                                                                         *)
(* The hot swap is modelled as both runtimes perform it (VM: new_resume;   *)
(* WASM: prewarm + try_hot_swap): the dsp state cells are carried over     *)
(* (identical layouts: the storage is copied), the clock keeps running,    *)
(* and the global initialisers are run again in the new instance, so       *)
(* global variable cells are re-initialised.  C06 demands that such a swap *)
(* is inaudible for programs whose signal state lives in self/mem/delay    *)
(* cells; TLC checks on the model that it is a stutter on <<cells, now>>   *)
(* and that the outputs of every history equal those of the uninterrupted  *)
(* run, and prints every explored history for replay on the real runtimes. *)
(*                                                                         *)
(* Phase "gen" is LangGen's generator; phase "run" starts when the program *)
(* is complete.                                                            *)
(***************************************************************************)
EXTENDS LangGen

CONSTANTS SwapAt,     \* sample indices before which a swap may happen
          MaxSwaps    \* maximal number of swaps in a history

VARIABLES phase, now, rst, hist, outs, inp
rvars == <<phase, now, rst, hist, outs, inp>>
allvars == <<vars, rvars>>

RInit == /\ Init
         /\ phase = "gen" /\ now = 0 /\ rst = <<>> /\ hist = <<>> /\ outs = <<>> /\ inp = <<>>

Gen == phase = "gen" /\ Fill /\ UNCHANGED rvars

NSwaps == Cardinality({i \in 1..Len(hist) : hist[i] = "swap"})

(* programs of interest: the generated body touches state *)
Stateful == \E i \in 1..Len(toks) :
               \/ toks[i].k \in {"self", "mem", "delay"}
               \/ (toks[i].k = "call" /\ Sig[toks[i].f].st)

BootUp == /\ phase = "gen" /\ Complete /\ Stateful
          /\ \E i \in Inputs : inp' = i
          /\ phase' = "run" /\ rst' = Boot(Prog)
          /\ now' = 0 /\ hist' = <<>> /\ outs' = <<>>
          /\ UNCHANGED vars

Tick == /\ phase = "run" /\ now < NSamples
        /\ LET r == RunSample(Prog, rst, now, inp[now + 1])
           IN /\ rst' = r.st
              /\ outs' = Append(outs, r.out)
        /\ now' = now + 1
        /\ hist' = Append(hist, "tick")
        /\ UNCHANGED <<vars, phase, inp>>

(* hot swap to the same program, as built: cells kept, clock kept, global  *)
(* initialisers re-run (global cells re-initialised)                       *)
SwapSame == /\ phase = "run" /\ now \in SwapAt /\ NSwaps < MaxSwaps
            /\ now < NSamples
            /\ LET fresh == Boot(Prog)
               \* (the out-of-model flag is not part of the program's state: it marks the history)
               IN rst' = [fresh EXCEPT !.S.c = rst.S.c, !.S.oom = rst.S.oom]
            /\ hist' = Append(hist, "swap")
            /\ UNCHANGED <<vars, phase, now, outs, inp>>

RNext == Gen \/ BootUp \/ Tick \/ SwapSame
RSpec == RInit /\ [][RNext]_allvars

---------------------------------------------------------------------------
(* C06 on the model *)
Uninterrupted == Outputs(Prog, inp, NSamples).outs

SwapInaudible ==
  phase = "run" => outs = SubSeq(Uninterrupted, 1, Len(outs))

(* the swap itself changes nothing the dsp can observe *)
SwapIsStutter ==
  [][(phase = "run" /\ phase' = "run" /\ Len(hist') > Len(hist) /\ hist'[Len(hist')] = "swap")
        => (rst' = rst /\ now' = now)]_allvars

EmitHistory ==
  (phase = "run" /\ now = NSamples /\ NSwaps > 0) =>
     PrintT(<<"REPLAY", ToJson([prog |-> Prog, inputs |-> inp, hist |-> hist,
                                expect |-> outs])>>)
=============================================================================

------------------------------ MODULE MCRename ------------------------------
(***************************************************************************)
(* C16 on the specification: for every LangGen program, the output stream  *)
(* defined by Lang.tla is invariant under a consistent (injective)         *)
(* renaming of all user-chosen identifiers.  The same programs are printed *)
(* for replay, where the renaming, redundant parentheses, layout changes   *)
(* and agreeing type annotations are applied to the source text and the    *)
(* transformed program runs next to the original on both back ends.        *)
(***************************************************************************)
EXTENDS LangGen
Names == {"counter", "lag", "acc7", "pacc", "dl", "nest", "dbl", "apply", "mk", "swap", "f",
          "x", "inc", "a", "b", "g", "k", "y", "p", "v1", "v2", "v3", "v4",
          \* field names, the names of the record / closure templates
          "q", "r", "n", "v", "bump", "inner", "pick", "mkr", "sumto"}
Sigma == [n \in Names |-> "r_" \o n]
RenameInvariant ==
  Complete => \A inp \in Inputs :
     Outputs(RenameProg(Sigma, Prog), inp, NSamples).outs = Outputs(Prog, inp, NSamples).outs
=============================================================================

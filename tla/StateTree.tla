---------------------------- MODULE StateTree ----------------------------
(***************************************************************************)
(* State layouts of mimium's live-coding state migration (crate           *)
(* state-tree), the diff that is computed between two layouts, and what    *)
(* property C08 demands of a migration plan.                               *)
(*                                                                         *)
(* Pure module (no variables).  Used by MCStateTree (exhaustive pairs and  *)
(* edit scripts), StateTreeTrace (validation of plans produced by the real *)
(* code), Layout/StateCursor (C05) and Runtime (C06/C07).                  *)
(***************************************************************************)
EXTENDS Integers, Sequences, FiniteSets

(* Layout trees.  k \in {"delay","mem","feed"} with n = delay length or    *)
(* word size; k = "fn" with ch = sequence of children.                     *)
Leaf(k, n) == [k |-> k, n |-> n]
Fn(ch)     == [k |-> "fn", ch |-> ch]

RECURSIVE Size(_)
Size(t) == CASE t.k = "delay" -> t.n + 2      \* read index, write index, ring
             [] t.k \in {"mem", "feed"} -> t.n
             [] t.k = "fn" ->
                  LET F[i \in 0..Len(t.ch)] ==
                        IF i = 0 THEN 0 ELSE F[i-1] + Size(t.ch[i])
                  IN F[Len(t.ch)]

RECURSIVE Sub(_,_)
Sub(t, p) == IF p = <<>> THEN t ELSE Sub(t.ch[p[1]], Tail(p))

(* Address of the subtree at path p in the flattened storage. *)
RECURSIVE Addr(_,_)
Addr(t, p) ==
  IF p = <<>> THEN 0
  ELSE LET F[i \in 0..(p[1]-1)] == IF i = 0 THEN 0 ELSE F[i-1] + Size(t.ch[i])
       IN F[p[1]-1] + Addr(t.ch[p[1]], Tail(p))

RECURSIVE Paths(_)
Paths(t) == {<<>>} \cup
            (IF t.k = "fn"
             THEN UNION {{<<i>> \o p : p \in Paths(t.ch[i])} : i \in 1..Len(t.ch)}
             ELSE {})

RECURSIVE NodeCount(_)
NodeCount(t) == IF t.k = "fn"
                THEN LET F[i \in 0..Len(t.ch)] ==
                           IF i = 0 THEN 1 ELSE F[i-1] + NodeCount(t.ch[i])
                     IN F[Len(t.ch)]
                ELSE 1

(* "identical shape": same kind, same size, same children shapes. *)
RECURSIVE Match(_,_)
Match(a, b) ==
  /\ a.k = b.k
  /\ IF a.k = "fn"
     THEN Len(a.ch) = Len(b.ch) /\ \A i \in 1..Len(a.ch) : Match(a.ch[i], b.ch[i])
     ELSE a.n = b.n

(* The flattened layout: set of [off, size, kind] for every leaf. *)
RECURSIVE LeavesAt(_,_)
LeavesAt(t, base) ==
  IF t.k = "fn"
  THEN UNION {LeavesAt(t.ch[i], base + Addr(t, <<i>>)) : i \in 1..Len(t.ch)}
  ELSE {[off |-> base, size |-> Size(t), kind |-> t.k]}
Leaves(t) == LeavesAt(t, 0)

---------------------------------------------------------------------------
(* Transcription of tree_diff.rs: take_diff / build_patches_recursive /    *)
(* lcs_by_score.  Patches are records [src, dst, size].                    *)

Max2(a, b) == IF a >= b THEN a ELSE b

(* dp[i][j] of lcs_by_score; score[i][j] = number of patches of the pair. *)
DP(score, m, n) ==
  LET T[ij \in (0..m) \X (0..n)] ==
        LET i == ij[1]
            j == ij[2]
        IN IF i = 0 \/ j = 0 THEN 0
           ELSE IF score[i][j] > 0
                THEN Max2(T[<<i-1, j-1>>] + score[i][j], Max2(T[<<i-1, j>>], T[<<i, j-1>>]))
                ELSE Max2(T[<<i-1, j>>], T[<<i, j-1>>])
  IN T

CONSTANTS BacktrackMode,   \* "greedy" (pinned commit) | "table" (repaired)
          ScoreMode        \* "count"  (pinned commit: number of patches)
                           \* "weight" (words carried, then nodes carried)
                           \* "nodes"  (first repair: nodes carried)
                           \* "nodes2" (current: nodes carried, a subtree without state words counts half)

(* Backtrack of lcs_by_score as built at the pinned commit: a positive     *)
(* local score is taken as a match without consulting the table.           *)
RECURSIVE BackGreedy(_,_,_,_)
BackGreedy(score, dp, i, j) ==
  IF i = 0 \/ j = 0 THEN {}
  ELSE IF score[i][j] > 0 THEN {<<i, j>>} \cup BackGreedy(score, dp, i-1, j-1)
  ELSE IF dp[<<i, j-1>>] >= dp[<<i-1, j>>] THEN BackGreedy(score, dp, i, j-1)
  ELSE BackGreedy(score, dp, i-1, j)

(* Backtrack that follows the table (the repaired code): a pair is common  *)
(* only if the table entry was obtained by taking it.                      *)
RECURSIVE BackTable(_,_,_,_)
BackTable(score, dp, i, j) ==
  IF i = 0 \/ j = 0 THEN {}
  ELSE IF score[i][j] > 0 /\ dp[<<i, j>>] = dp[<<i-1, j-1>>] + score[i][j]
       THEN {<<i, j>>} \cup BackTable(score, dp, i-1, j-1)
  ELSE IF dp[<<i, j-1>>] >= dp[<<i-1, j>>] THEN BackTable(score, dp, i, j-1)
  ELSE BackTable(score, dp, i-1, j)

Back(score, dp, i, j) == IF BacktrackMode = "greedy" THEN BackGreedy(score, dp, i, j)
                         ELSE BackTable(score, dp, i, j)

(* Weight of carrying a whole subtree: its words first, its nodes second.  *)
WK == 1000
Weight(t) == IF ScoreMode = "nodes" THEN NodeCount(t)
             ELSE IF ScoreMode = "nodes2" THEN (IF Size(t) = 0 THEN NodeCount(t) ELSE 2 * NodeCount(t))
             ELSE WK * Size(t) + NodeCount(t)

RECURSIVE SumW(_)
SumW(S) == IF S = {} THEN 0 ELSE LET x == CHOOSE y \in S : TRUE IN x + SumW(S \ {x})

(* Result of diffing the subtrees at po / pn: [P |-> patches, w |-> weight] *)
RECURSIVE PatchesW(_,_,_,_)
PatchesW(old, new, po, pn) ==
  LET a == Sub(old, po)
      b == Sub(new, pn)
  IN IF Match(a, b)
     THEN [P |-> {[src |-> Addr(old, po), dst |-> Addr(new, pn), size |-> Size(a)]},
           w |-> Weight(a)]
     ELSE IF a.k = "fn" /\ b.k = "fn"
     THEN LET m == Len(a.ch)
              n == Len(b.ch)
              cp == [i \in 1..m |-> [j \in 1..n |->
                       PatchesW(old, new, Append(po, i), Append(pn, j))]]
              score == [i \in 1..m |-> [j \in 1..n |->
                          IF ScoreMode = "count" THEN Cardinality(cp[i][j].P)
                          ELSE cp[i][j].w]]
              dp == DP(score, m, n)
              common == Back(score, dp, m, n)
              W[k \in 0..(m*n)] ==   \* sum of the weights of the chosen pairs
                 IF k = 0 THEN 0
                 ELSE LET i == ((k-1) \div n) + 1
                          j == ((k-1) % n) + 1
                      IN W[k-1] + (IF <<i, j>> \in common THEN cp[i][j].w ELSE 0)
          IN [P |-> UNION {cp[c[1]][c[2]].P : c \in common}, w |-> W[m*n]]
     ELSE [P |-> {}, w |-> 0]

Patches(old, new, po, pn) == PatchesW(old, new, po, pn).P

ImplDiff(old, new) == Patches(old, new, <<>>, <<>>)

(* build_state_storage_patch_plan: no plan when the layouts are equal. *)
ImplPlan(old, new) == IF old = new THEN [none |-> TRUE, total |-> 0, patches |-> {}]
                      ELSE [none |-> FALSE, total |-> Size(new), patches |-> ImplDiff(old, new)]

(* apply_state_storage_patch_plan on a storage given as a function 0..n-1. *)
Apply(oldStore, total, P) ==
  [d \in 0..(total-1) |->
     IF \E p \in P : p.dst <= d /\ d < p.dst + p.size
     THEN LET p == CHOOSE q \in P : q.dst <= d /\ d < q.dst + q.size
          IN oldStore[p.src + (d - p.dst)]
     ELSE 0]

---------------------------------------------------------------------------
(* What C08 demands of a set of patches P from layout old to layout new.   *)
(* Zero-size patches (empty Fn[] subtrees) copy nothing and are ignored by *)
(* the ordering / overlap predicates.                                      *)

NZ(P) == {p \in P : p.size > 0}

InBounds(old, new, P) ==
  \A p \in P : /\ p.src >= 0 /\ p.dst >= 0 /\ p.size >= 0
               /\ p.src + p.size <= Size(old)
               /\ p.dst + p.size <= Size(new)

NoDoubleWrite(P) ==
  \A p, q \in NZ(P) : p # q => (p.dst + p.size <= q.dst \/ q.dst + q.size <= p.dst)

OrderPreserved(P) ==
  \A p, q \in NZ(P) : (p.src < q.src) <=> (p.dst < q.dst)

(* every patch copies one subtree onto a subtree of identical shape *)
SameShape(old, new, P) ==
  \A p \in NZ(P) : \E po \in Paths(old), pn \in Paths(new) :
     /\ Addr(old, po) = p.src
     /\ Addr(new, pn) = p.dst
     /\ Size(Sub(old, po)) = p.size
     /\ Match(Sub(old, po), Sub(new, pn))

WellFormed(old, new, P) ==
  /\ InBounds(old, new, P)
  /\ NoDoubleWrite(P)
  /\ OrderPreserved(P)
  /\ SameShape(old, new, P)

Covered(P) == UNION {p.dst .. (p.dst + p.size - 1) : p \in P}

(* Result storage: words covered by a patch carry the old word, all others *)
(* are zero.  oldStore is tagged (oldStore[i] = i + 1) by the harness.     *)
ZeroElsewhere(res, total, P) ==
  /\ DOMAIN res = 0..(total-1)
  /\ \A d \in 0..(total-1) :
       IF d \in Covered(P)
       THEN \E p \in P : p.dst <= d /\ d < p.dst + p.size /\ res[d] = (p.src + (d - p.dst)) + 1
       ELSE res[d] = 0

(* No survivor is dropped needlessly: there is no child of the old root and *)
(* child of the new root of identical shape that could still be carried     *)
(* over without touching what the plan already copies and without breaking  *)
(* the order of siblings.  (Whatever explanation of the edit the plan       *)
(* embodies, such a pair would be a surviving subtree that is not carried.) *)
Addable(old, new, P, q) ==
  /\ q.size > 0
  /\ \A p \in NZ(P) : /\ (p.dst + p.size <= q.dst \/ q.dst + q.size <= p.dst)
                       /\ (p.src + p.size <= q.src \/ q.src + q.size <= p.src)
                       /\ ((p.src < q.src) <=> (p.dst < q.dst))
MaximalAtRoot(old, new, P) ==
  \* zero-size patches (empty Fn[] subtrees) take part in the sibling order but have no address
  \* extent to compare: plans that contain one are not judged
  (old.k = "fn" /\ new.k = "fn" /\ ~Match(old, new) /\ P = NZ(P)) =>
    ~\E i \in 1..Len(old.ch), j \in 1..Len(new.ch) :
        /\ Match(old.ch[i], new.ch[j])
        /\ Addable(old, new, P, [src |-> Addr(old, <<i>>), dst |-> Addr(new, <<j>>),
                                 size |-> Size(old.ch[i])])

---------------------------------------------------------------------------
(* Edit scripts with survivor tracking.  A tagged tree carries in every    *)
(* leaf the address `o` it had in the original layout (-1 = inserted).     *)

RECURSIVE TagAt(_,_)
TagAt(t, base) ==
  IF t.k = "fn"
  THEN [k |-> "fn", ch |-> [i \in 1..Len(t.ch) |-> TagAt(t.ch[i], base + Addr(t, <<i>>))]]
  ELSE [k |-> t.k, n |-> t.n, o |-> base]
Tag(t) == TagAt(t, 0)

RECURSIVE Fresh(_)
Fresh(t) == IF t.k = "fn" THEN [k |-> "fn", ch |-> [i \in 1..Len(t.ch) |-> Fresh(t.ch[i])]]
            ELSE [k |-> t.k, n |-> t.n, o |-> -1]

RECURSIVE Untag(_)
Untag(t) == IF t.k = "fn" THEN [k |-> "fn", ch |-> [i \in 1..Len(t.ch) |-> Untag(t.ch[i])]]
            ELSE [k |-> t.k, n |-> t.n]

RemoveAt(s, i) == SubSeq(s, 1, i-1) \o SubSeq(s, i+1, Len(s))
InsertAt(s, i, x) == SubSeq(s, 1, i-1) \o <<x>> \o SubSeq(s, i, Len(s))

(* delete the subtree at non-empty path p *)
RECURSIVE DeleteAt(_,_)
DeleteAt(t, p) ==
  IF Len(p) = 1 THEN [k |-> "fn", ch |-> RemoveAt(t.ch, p[1])]
  ELSE [k |-> "fn", ch |-> [t.ch EXCEPT ![p[1]] = DeleteAt(t.ch[p[1]], Tail(p))]]

(* insert x as the i-th child of the fn node at path p *)
RECURSIVE InsertUnder(_,_,_,_)
InsertUnder(t, p, i, x) ==
  IF p = <<>> THEN [k |-> "fn", ch |-> InsertAt(t.ch, i, x)]
  ELSE [k |-> "fn", ch |-> [t.ch EXCEPT ![p[1]] = InsertUnder(t.ch[p[1]], Tail(p), i, x)]]

(* surviving words of a tagged tree: set of <<newAddr, oldAddr>> *)
RECURSIVE SurvivorsAt(_,_)
SurvivorsAt(t, base) ==
  IF t.k = "fn"
  THEN UNION {SurvivorsAt(t.ch[i], base + Addr(Untag(t), <<i>>)) : i \in 1..Len(t.ch)}
  ELSE IF t.o < 0 THEN {}
       ELSE {<<base + w, t.o + w>> : w \in 0..(Size(t) - 1)}
Survivors(t) == SurvivorsAt(t, 0)

(* Two old words are exchangeable when they sit at the same relative       *)
(* offset of two identically shaped sibling subtrees.                      *)
Exchangeable(old, a, b) ==
  \/ a = b
  \/ \E q1, q2 \in Paths(old) :
       /\ Len(q1) > 0 /\ Len(q1) = Len(q2)
       /\ SubSeq(q1, 1, Len(q1)-1) = SubSeq(q2, 1, Len(q2)-1)
       /\ Match(Sub(old, q1), Sub(old, q2))
       /\ a - Addr(old, q1) = b - Addr(old, q2)
       /\ a >= Addr(old, q1) /\ a < Addr(old, q1) + Size(Sub(old, q1))

(* every surviving word is carried over (up to exchange among identically  *)
(* shaped siblings)                                                         *)
SurvivorsKept(old, tagged, P) ==
  \A s \in Survivors(tagged) :
     \E p \in P : /\ p.dst <= s[1] /\ s[1] < p.dst + p.size
                  /\ Exchangeable(old, p.src + (s[1] - p.dst), s[2])

(* All tagged trees obtainable from a tagged tree by deleting any set of   *)
(* non-root subtrees (every explanation of a deletion-only edit).          *)
RECURSIVE DelSet(_), DelSeqs(_,_)
DelSeqs(ch, i) ==   \* all ways of keeping/dropping/thinning children i..Len(ch)
  IF i > Len(ch) THEN {<<>>}
  ELSE LET rest == DelSeqs(ch, i+1)
       IN rest \cup {<<h>> \o r : h \in DelSet(ch[i]), r \in rest}
DelSet(t) == IF t.k = "fn" THEN {[k |-> "fn", ch |-> s] : s \in DelSeqs(t.ch, 1)} ELSE {t}

(* C08, last sentence, for a pair where new arises from old by deletions   *)
(* only: some explanation's survivors are all carried over.                *)
KeptUnderDeletion(old, new, P) ==
  \E tg \in DelSet(Tag(old)) : Untag(tg) = new /\ SurvivorsKept(old, tg, P)

(* ... and where new arises from old by insertions only (old arises from   *)
(* new by deletions): pairs are <<newAddr, oldAddr>> read off the thinned  *)
(* new tree.                                                                *)
RECURSIVE SurvivorsInv(_,_)
SurvivorsInv(t, base) ==   \* t: thinned tagged new tree laid out as old; <<newAddr, oldAddr>>
  IF t.k = "fn"
  THEN UNION {SurvivorsInv(t.ch[i], base + Addr(Untag(t), <<i>>)) : i \in 1..Len(t.ch)}
  ELSE {<<t.o + w, base + w>> : w \in 0..(Size(t) - 1)}
KeptUnderInsertion(old, new, P) ==
  \E tg \in DelSet(Tag(new)) :
     /\ Untag(tg) = old
     /\ \A s \in SurvivorsInv(tg, 0) :
          \E p \in P : /\ p.dst <= s[1] /\ s[1] < p.dst + p.size
                       /\ Exchangeable(old, p.src + (s[1] - p.dst), s[2])
=============================================================================

------------------------------ MODULE Staging ------------------------------
(***************************************************************************)
(* C09: staged code means what it generates.  LangGen supplies every       *)
(* expression e of the token budget; each is placed in every staging       *)
(* context of `Contexts`; StagingCore expands it and Lang gives the        *)
(* expected samples of the expansion.                                      *)
(***************************************************************************)
EXTENDS LangGen, StagingCore

CONSTANTS Contexts     \* names of the staging contexts to generate

---------------------------------------------------------------------------
(* C09: the staging contexts.  c is the spliced code throughout.           *)
Hole == Splice(MV("c"))
Macros == [
  wrap  |-> [ps |-> <<"c">>, b |-> MQ(Bin("+", Bin("*", Hole, Lit(2)), Lit(1)))],
  rep   |-> [ps |-> <<"n", "c">>,
             b |-> MIf(MBin(">", MV("n"), MNum(0)),
                       MQ(Bin("+", Hole, Splice(MCall("rep", <<MBin("-", MV("n"), MNum(1)), MV("c")>>)))),
                       MQ(Lit(0)))],
  app   |-> [ps |-> <<"g", "c">>, b |-> MCall("g", <<MV("c")>>)],
  bindq |-> [ps |-> <<"c">>, b |-> MQ(Let("t", Lit(10), Bin("+", Hole, Var("t"))))],
  lamq  |-> [ps |-> <<"c">>, b |-> MQ(App(Lam(<<"t">>, Bin("+", Hole, Var("t"))), <<Lit(10)>>))],
  pairq |-> [ps |-> <<"c">>, b |-> MQ(LetT(<<"t", "w">>, Tup(<<Hole, Lit(20)>>), Bin("+", Var("t"), Var("w"))))],
  sel   |-> [ps |-> <<"v", "c">>, b |-> MQ(If(Splice(MLift(MV("v"))), Hole, Lit(7)))],
  twice |-> [ps |-> <<"c">>, b |-> MLet("q", MV("c"), MQ(Bin("-", Bin("*", Splice(MV("q")), Lit(3)), Splice(MV("q")))))]
]
CtxBody(c, e) ==
  CASE c = "id"    -> Splice(MQ(e))                                      \* $(`{ e })
    [] c = "letq"  -> Splice(MLet("q", MQ(e),                            \* $({ let q = `{ e }  `{ $q + $q * 3 } })
                        MQ(Bin("+", Splice(MV("q")), Bin("*", Splice(MV("q")), Lit(3))))))
    [] c = "mcall" -> MacroApp("wrap", <<MQ(e)>>)                        \* wrap!(`{ e })
    [] c = "scall" -> Splice(MCall("wrap", <<MQ(e)>>))                   \* $(wrap(`{ e }))
    [] c = "rec"   -> MacroApp("rep", <<MNum(3), MQ(e)>>)                \* code-building recursion, depth 3
    [] c = "lift"  -> Bin("+", Splice(MLift(MBin("+", MBin("*", MNum(2), MNum(3)), MNum(1)))), Splice(MQ(e)))
    [] c = "hof"   -> MacroApp("app", <<MFn("wrap"), MQ(e)>>)            \* a macro function passed as a value
    [] c = "bind"  -> MacroApp("bindq", <<MQ(e)>>)                       \* the template binds a name around the splice
    [] c = "lam"   -> MacroApp("lamq", <<MQ(e)>>)
    [] c = "pair"  -> MacroApp("pairq", <<MQ(e)>>)
    [] c = "twice" -> MacroApp("twice", <<MQ(e)>>)                       \* code bound by a macro-stage let, spliced twice
    \* a number computed at the macro stage, lifted, as the condition of a quoted if: negative, zero, positive
    [] c = "selneg"  -> MacroApp("sel", <<MBin("-", MNum(1), MNum(3)), MQ(e)>>)
    [] c = "selzero" -> MacroApp("sel", <<MBin("-", MNum(2), MNum(2)), MQ(e)>>)
    [] c = "selpos"  -> MacroApp("sel", <<MBin("*", MNum(2), MNum(3)), MQ(e)>>)
    [] c = "nest"  -> Splice(MQ(Bin("+", Splice(MQ(e)), Lit(1))))        \* $(`{ $(`{ e }) + 1 })
UsedMacros(c) == CASE c \in {"mcall", "scall"} -> {"wrap"}
                   [] c = "rec" -> {"rep"}
                   [] c = "hof" -> {"wrap", "app"}
                   [] c = "bind" -> {"bindq"} [] c = "lam" -> {"lamq"} [] c = "pair" -> {"pairq"}
                   [] c = "twice" -> {"twice"}
                   [] c \in {"selneg", "selzero", "selpos"} -> {"sel"}
                   [] OTHER -> {}

Target == IF Template = "dsp" THEN "dsp" ELSE "f"
StagedProg(c) ==
  [nout |-> Prog.nout, globals |-> Prog.globals,
   macros |-> [m \in UsedMacros(c) |-> Macros[m]],
   fns |-> [f \in DOMAIN Prog.fns |-> IF f = Target THEN [Prog.fns[f] EXCEPT !.b = CtxBody(c, Body)] ELSE Prog.fns[f]]]
(* (macros of the whole table are needed for expansion: rep calls itself, app calls wrap) *)
Expanded(c) == ExpandProg([StagedProg(c) EXCEPT !.macros = Macros])

(* what the context does to the value of e when e is placed once: used to state the laws below *)
Outs(p, inp) == Outputs(p, inp, NSamples).outs

(* laws of the specification itself (checked by TLC on every generated e):                    *)
(*  quote-then-splice is the identity on meaning; f!(a) means $(f(a)); nesting adds nothing   *)
QuoteSpliceIdentity ==
  Complete => \A inp \in Inputs : Outs(Expanded("id"), inp) = Outs(Prog, inp)
MacroCallIsSplice ==
  Complete => \A inp \in Inputs : Outs(Expanded("mcall"), inp) = Outs(Expanded("scall"), inp)
HigherOrderIsDirect ==
  Complete => \A inp \in Inputs : Outs(Expanded("hof"), inp) = Outs(Expanded("mcall"), inp)

(* `self` and the state of calls belong to the function they are written in.  A template that *)
(* puts the spliced code under a lambda would move them into another function: the expansion   *)
(* can then not be written as a plain program by substitution, so such contexts take pure code *)
PureBody == \A i \in 1..Len(toks) :
              /\ toks[i].k \notin {"self", "mem", "delay"}
              /\ (toks[i].k = "call" => ~Sig[toks[i].f].st)
Applies(c) == c \in {"lam"} => PureBody

EmitStaged ==
  Complete =>
    \A c \in {x \in Contexts : Applies(x)}, inp \in Inputs :
      LET ep == Expanded(c)
          r  == Outputs(ep, inp, NSamples)
      IN PrintT(<<"REPLAY", ToJson([ctx |-> c, staged |-> StagedProg(c), expanded |-> ep, inputs |-> inp,
                                    expect |-> r.outs, oom |-> r.st.S.oom, ntok |-> Len(toks)])>>)
=============================================================================

-------------------------- MODULE StateTreeTrace --------------------------
(***************************************************************************)
(* Trace validation for C08: every record is one call of the real          *)
(* build_state_storage_patch_plan / apply_state_storage_patch_plan         *)
(* (recorded by `mmverif tree`); the step for a record is enabled only if  *)
(* the real plan satisfies what StateTree demands.  A record that fails is *)
(* reported with the names of the failed predicates and consumed anyway,   *)
(* so that the rest of the trace is still checked.                         *)
(***************************************************************************)
EXTENDS StateTree, TLC, Json, IOUtils

Rec == ndJsonDeserialize(IOEnv.TRACE)

VARIABLES l, nfail
vars == <<l, nfail>>

R == Rec[l]
HasPlan == R.hasplan
PlanSet == IF HasPlan THEN {[src |-> p[1], dst |-> p[2], size |-> p[3]] :
                              p \in {R.plan.patches[i] : i \in 1..Len(R.plan.patches)}}
           ELSE {}
Res == [d \in 0..(Len(R.applied) - 1) |-> R.applied[d + 1]]
SrcCov(Q) == UNION {q.src .. (q.src + q.size - 1) : q \in Q}

Failed ==
  LET o == R.old
      n == R.new
      Q == PlanSet
  IN  (IF R.panic # "" THEN {"Panic"} ELSE {})
  \cup (IF o = n /\ HasPlan THEN {"NoOp"} ELSE {})
  \cup (IF o # n /\ ~HasPlan /\ R.panic = "" THEN {"MissingPlan"} ELSE {})
  \cup (IF HasPlan /\ R.plan.total # Size(n) THEN {"TotalSize"} ELSE {})
  \cup (IF HasPlan /\ ~InBounds(o, n, Q) THEN {"InBounds"} ELSE {})
  \cup (IF HasPlan /\ ~NoDoubleWrite(Q) THEN {"NoDoubleWrite"} ELSE {})
  \cup (IF HasPlan /\ ~OrderPreserved(Q) THEN {"OrderPreserved"} ELSE {})
  \cup (IF HasPlan /\ InBounds(o, n, Q) /\ ~SameShape(o, n, Q) THEN {"SameShape"} ELSE {})
  \cup (IF HasPlan /\ InBounds(o, n, Q) /\ NoDoubleWrite(Q)
            /\ ~ZeroElsewhere(Res, Size(n), Q) THEN {"ZeroElsewhere"} ELSE {})
  \cup (IF HasPlan /\ R.direct # R.applied THEN {"OneCallApiDiffers"} ELSE {})
  \cup (IF HasPlan /\ R.rel = "del" /\ Covered(Q) # 0..(Size(n) - 1) THEN {"SurvivorsDel"} ELSE {})
  \cup (IF HasPlan /\ R.rel = "ins" /\ SrcCov(Q) # 0..(Size(o) - 1) THEN {"SurvivorsIns"} ELSE {})
  \cup (IF HasPlan /\ InBounds(o, n, Q) /\ ~MaximalAtRoot(o, n, Q) THEN {"SurvivorDroppedNeedlessly"} ELSE {})

Init == l = 1 /\ nfail = 0
Step == /\ l <= Len(Rec)
        /\ LET f == Failed IN
             /\ (IF f = {} THEN TRUE ELSE PrintT(<<"FAIL", ToJson([id |-> R.id, failed |-> f])>>))
             /\ nfail' = nfail + (IF f = {} THEN 0 ELSE 1)
        /\ l' = l + 1
Spec == Init /\ [][Step]_vars

(* every line consumed *)
Accepted == /\ TLCGet("stats").diameter - 1 = Len(Rec)
            /\ PrintT(<<"CONSUMED", ToJson([n |-> Len(Rec)])>>)
=============================================================================

------------------------------ MODULE FfiTrace ------------------------------
(***************************************************************************)
(* Trace validation for C20: a record is one item sent through the real    *)
(* encoders {id, item, sendable, paths} with paths a sequence of           *)
(* [path, status, got].  For every path: an accepted item decodes to       *)
(* itself; a sendable item is accepted (Send may refuse only what cannot   *)
(* cross the boundary).                                                    *)
(***************************************************************************)
EXTENDS Integers, Sequences, TLC, Json, IOUtils
Rec == ndJsonDeserialize(IOEnv.TRACE)
VARIABLES l, p
vars == <<l, p>>
R == Rec[l]
Init == l = 1 /\ p = 1
NextRecord == /\ l' = l + 1 /\ p' = 1
              /\ (IF l = Len(Rec) THEN PrintT(<<"CONSUMED", ToJson([n |-> Len(Rec)])>>) ELSE TRUE)
Fail(what) == PrintT(<<"FAIL", ToJson([id |-> R.id, path |-> R.paths[p].path, what |-> what])>>)
Step ==
  /\ l <= Len(Rec)
  /\ IF p > Len(R.paths) THEN NextRecord
     ELSE LET q == R.paths[p] IN
          IF q.status = "panic" THEN Fail("panic") /\ NextRecord
          ELSE IF q.status = "ok" /\ q.got # R.item THEN Fail("decoded value differs from the encoded one (silently altered)") /\ NextRecord
          ELSE IF q.status = "refused" /\ R.sendable THEN Fail("a representable item was refused") /\ NextRecord
          ELSE p' = p + 1 /\ l' = l
Spec == Init /\ [][Step]_vars
=============================================================================

----------------------------- MODULE LangTrace -----------------------------
(***************************************************************************)
(* Trace validation for C02 (impl -> spec): each record is a recorded run  *)
(* of a program on a real back end: {id, prog, inputs, out} with out[t]    *)
(* the output channels of sample t-1.  One Sample step per recorded sample *)
(* is enabled only if Lang.RunSample yields the recorded output from the   *)
(* state reached so far; a record whose next sample is not explained is    *)
(* reported (FAIL) and skipped so that the rest of the trace is checked.   *)
(***************************************************************************)
EXTENDS Lang, Json, IOUtils

Rec == ndJsonDeserialize(IOEnv.TRACE)

VARIABLES l, t, st
vars == <<l, t, st>>

R == Rec[l]
Init == l = 1 /\ t = 0 /\ st = IF Len(Rec) > 0 THEN Boot(Rec[1].prog) ELSE <<>>

NextRecord == /\ l' = l + 1 /\ t' = 0
              /\ st' = IF l + 1 <= Len(Rec) THEN Boot(Rec[l + 1].prog) ELSE <<>>
              /\ (IF l = Len(Rec) THEN PrintT(<<"CONSUMED", ToJson([n |-> Len(Rec)])>>) ELSE TRUE)

Sample ==
  /\ l <= Len(Rec) /\ t < Len(R.out)
  /\ LET r == RunSample(R.prog, st, t, R.inputs[t + 1])
     IN IF r.out = R.out[t + 1] /\ ~r.st.S.oom
        THEN t' = t + 1 /\ st' = r.st /\ l' = l
        ELSE /\ PrintT(<<"FAIL", ToJson([id |-> R.id, at |-> t, expected |-> r.out,
                                        oom |-> r.st.S.oom])>>)
             /\ NextRecord
Finish == l <= Len(Rec) /\ t = Len(R.out) /\ NextRecord

Next == Sample \/ Finish
Spec == Init /\ [][Next]_vars

Accepted == TLCGet("stats").diameter >= Len(Rec)
=============================================================================

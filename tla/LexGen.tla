------------------------------- MODULE LexGen -------------------------------
(***************************************************************************)
(* Bounded-exhaustive generator of input texts for the lexer / CST checks  *)
(* (C13, C04): all strings up to length MaxLen over an alphabet of         *)
(* character classes.  A text is a sequence of class indices 1..NClasses;  *)
(* the harness maps a class to its representative character(s).  Every     *)
(* reachable state is a text (every prefix is a text of its own), so TLC's *)
(* state graph is the set of texts; one REPLAY line per state.             *)
(***************************************************************************)
EXTENDS Integers, Sequences, TLC, Json
CONSTANTS NClasses, MaxLen
VARIABLE txt
Init == txt = <<>>
Next == Len(txt) < MaxLen /\ \E c \in 1..NClasses : txt' = Append(txt, c)
Spec == Init /\ [][Next]_txt
Emit == PrintT(<<"REPLAY", ToJson([t |-> txt])>>)
=============================================================================

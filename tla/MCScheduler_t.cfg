SPECIFICATION Spec
CONSTANTS
  Backend = "wasm"
  NSamples = 8
  MaxTasks = 2
  Delays = {1, 2, 4}
  Periods = {0, 1, 3}
  DspAt = {0, 2}
  Emit = FALSE
INVARIANT OnlyScheduledOnceOnTime
INVARIANT NothingMissed
INVARIANT NeverRefused
CHECK_DEADLOCK FALSE

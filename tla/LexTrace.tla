------------------------------ MODULE LexTrace ------------------------------
(***************************************************************************)
(* Trace specification for C13: the lexer as a state machine that consumes *)
(* the text, and the losslessness of the CST and of trivia attachment.     *)
(*                                                                         *)
(* A record is one call of tokenize / preparse / parse_cst on a text:      *)
(*   len     byte length of the text                                       *)
(*   bounds  the byte offsets that are character boundaries (incl. 0, len) *)
(*   toks    the tokens in order: <<kind, start, length, isTrivia, isEof>> *)
(*   nontrivia  indices (0-based) of the syntax tokens, in order           *)
(*   leading / trailing  <<k, <<trivia token indices>>>>: trivia attached   *)
(*           to the k-th syntax token                                      *)
(*   leaves  token indices at the leaves of the CST, in document order     *)
(*   skiptrivia  TRUE for texts of the pinned class "line break before the *)
(*           first syntax token" (preparse drops that trivia; the          *)
(*           formatter compensates): trivia attachment is not judged there *)
(*                                                                         *)
(* Lexer: pos starts at 0; Emit(start, len) needs start = pos, len > 0 and *)
(* pos + len on a character boundary; Eof needs start = pos = len(text),   *)
(* length 0, and is the last token.  So the token texts concatenate to the *)
(* input.  CST: its leaves are exactly the syntax tokens, each once, in    *)
(* order.  Trivia: every trivia token is attached to exactly one syntax    *)
(* token and lies between that token and its neighbour on that side.       *)
(***************************************************************************)
EXTENDS Integers, Sequences, FiniteSets, TLC, Json, IOUtils

Rec == ndJsonDeserialize(IOEnv.TRACE)

VARIABLES l, i, pos
vars == <<l, i, pos>>
R == Rec[l]
Init == l = 1 /\ i = 1 /\ pos = 0

Fail(what) == PrintT(<<"FAIL", ToJson([id |-> R.id, at |-> i, what |-> what])>>)
NextRecord == /\ l' = l + 1 /\ i' = 1 /\ pos' = 0
              /\ (IF l = Len(Rec) THEN PrintT(<<"CONSUMED", ToJson([n |-> Len(Rec)])>>) ELSE TRUE)

Bounds == {R.bounds[k] : k \in 1..Len(R.bounds)}
Range(s) == {s[k] : k \in 1..Len(s)}

(* CST and trivia facts of the whole record, checked when the lexer part is done *)
Syntax == {k \in 0..(Len(R.toks) - 1) : ~R.toks[k + 1][4] /\ ~R.toks[k + 1][5]}
Trivia == {k \in 0..(Len(R.toks) - 1) : R.toks[k + 1][4]}
RECURSIVE Increasing(_)
Increasing(s) == Len(s) < 2 \/ (s[1] < s[2] /\ Increasing(Tail(s)))
LeavesOk == /\ Range(R.leaves) = Syntax
            /\ Len(R.leaves) = Cardinality(Syntax)
            /\ Increasing(R.leaves)
NonTriviaOk == /\ Range(R.nontrivia) = Syntax /\ Increasing(R.nontrivia)
Attached == [k \in 1..(Len(R.leading) + Len(R.trailing)) |->
               IF k <= Len(R.leading) THEN R.leading[k] ELSE R.trailing[k - Len(R.leading)]]
AllAttached == UNION {Range(Attached[k][2]) : k \in 1..Len(Attached)}
CountAttached(t) == Cardinality({k \in 1..Len(Attached) : t \in Range(Attached[k][2])})
TokIdx(k) == R.nontrivia[k + 1]                 \* token index of the k-th syntax token
NSyn == Len(R.nontrivia)
LeadingOk == \A k \in 1..Len(R.leading) :
               LET s == R.leading[k][1] IN
               /\ s >= 0 /\ s < NSyn
               /\ \A t \in Range(R.leading[k][2]) :
                    /\ t < TokIdx(s)
                    /\ (s = 0 \/ t > TokIdx(s - 1))
TrailingOk == \A k \in 1..Len(R.trailing) :
               LET s == R.trailing[k][1] IN
               /\ s >= 0 /\ s < NSyn
               /\ \A t \in Range(R.trailing[k][2]) :
                    /\ t > TokIdx(s)
                    /\ (s = NSyn - 1 \/ t < TokIdx(s + 1))
TriviaOk == /\ (NSyn > 0 => AllAttached = Trivia)
            /\ \A t \in AllAttached : CountAttached(t) = 1
            /\ LeadingOk /\ TrailingOk

TreeFacts == IF R.panic # "" THEN "panic"
             ELSE IF ~NonTriviaOk THEN "syntax token list"
             ELSE IF ~LeavesOk THEN "CST leaves are not the syntax tokens, each once, in order"
             ELSE IF ~R.skiptrivia /\ ~TriviaOk THEN "trivia not attached to exactly one neighbouring token"
             ELSE "ok"

(* one lexer step per token *)
Tok ==
  /\ l <= Len(Rec)
  /\ IF R.panic # "" THEN Fail("panic: " \o R.panic) /\ NextRecord
     ELSE IF i > Len(R.toks)
     THEN \* the token list is exhausted: it must have ended with Eof at the end of the text
          IF Len(R.toks) = 0 \/ ~R.toks[Len(R.toks)][5] \/ pos # R.len
          THEN Fail("token list does not end with Eof at the end of the text") /\ NextRecord
          ELSE IF TreeFacts # "ok" THEN Fail(TreeFacts) /\ NextRecord
          ELSE NextRecord
     ELSE LET t == R.toks[i] IN
          IF t[5]   \* Eof
          THEN IF t[2] = pos /\ t[3] = 0 /\ pos = R.len /\ i = Len(R.toks)
               THEN i' = i + 1 /\ pos' = pos /\ l' = l
               ELSE Fail("misplaced end marker") /\ NextRecord
          ELSE IF t[2] = pos /\ t[3] > 0 /\ (pos + t[3]) \in Bounds /\ pos + t[3] <= R.len
               THEN i' = i + 1 /\ pos' = pos + t[3] /\ l' = l
               ELSE Fail("token does not continue the tiling") /\ NextRecord
Spec == Init /\ [][Tok]_vars
=============================================================================

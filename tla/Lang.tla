------------------------------- MODULE Lang -------------------------------
(***************************************************************************)
(* Definitional semantics of mimium's core language (property C02):        *)
(* call-by-value evaluation in which every textual call site of a stateful *)
(* function owns its own zero-initialised state, carried from one sample   *)
(* to the next.  Shares no code with the compiler: the output stream of a  *)
(* program is defined here by structural recursion over its AST.           *)
(*                                                                         *)
(* Pure module.  Used by LangGen (TLC-generated programs with expected     *)
(* outputs, replayed on VM / WASM / generated Rust: C01 C02 C06 C16 C18),  *)
(* LangTrace (validation of recorded runs of larger random programs) and   *)
(* Staging (C09, C10).                                                     *)
(*                                                                         *)
(* AST nodes are records with a constructor field k (Appendix A of         *)
(* DESIGN.md).  Values: integers, tuples and arrays (sequences of values), *)
(* records (functions from field names to values), closures.  Records      *)
(* (literal, field access, update, field assignment), arrays (literal,     *)
(* index, len) and the numeric match were added in the fourth session; the *)
(* initialisers of a record run in the order they are written.             *)
(* A call site is identified by its position in the enclosing function     *)
(* body (sequence of child indices); the state of a call-tree node is      *)
(* keyed by the sequence of call-site positions leading to it.             *)
(***************************************************************************)
EXTENDS Integers, Sequences, FiniteSets, TLC

Lit(n)        == [k |-> "lit", v |-> n]
Var(x)        == [k |-> "var", x |-> x]
NowE          == [k |-> "now"]
SrE           == [k |-> "sr"]
SelfE(z)      == [k |-> "self", z |-> z]          \* z: zero value of the function's result type
Neg(a)        == [k |-> "neg", a |-> a]
Bin(op, a, b) == [k |-> "bin", op |-> op, a |-> a, b |-> b]
If(c, t, e)   == [k |-> "if", c |-> c, t |-> t, e |-> e]
Let(x, a, b)  == [k |-> "let", x |-> x, a |-> a, b |-> b]
LetT(xs, a, b) == [k |-> "lett", xs |-> xs, a |-> a, b |-> b]
Asg(x, a, b)  == [k |-> "asg", x |-> x, a |-> a, b |-> b]   \* x = a; b
Tup(es)       == [k |-> "tup", es |-> es]
Proj(a, i)    == [k |-> "proj", a |-> a, i |-> i]            \* a.i, 0-based
Lam(ps, b)    == [k |-> "lam", ps |-> ps, b |-> b]
App(f, as)    == [k |-> "app", f |-> f, as |-> as]           \* f evaluates to a closure
Call(f, as)   == [k |-> "call", f |-> f, as |-> as]          \* f names a global function
Mem(a)        == [k |-> "mem", a |-> a]
Delay(n, a, t) == [k |-> "delay", n |-> n, a |-> a, t |-> t]
(* records (fs: sequence of [n |-> field name, a |-> initialiser], in the order they are written), arrays,  *)
(* numeric match with literal keys and a default arm                                                         *)
RecE(fs)         == [k |-> "rec", fs |-> fs]
Fld(a, n)        == [k |-> "fld", a |-> a, n |-> n]
RecUpd(a, fs)    == [k |-> "recupd", a |-> a, fs |-> fs]       \* { a <- n1 = e1, ... }
AsgF(x, n, a, b) == [k |-> "asgf", x |-> x, n |-> n, a |-> a, b |-> b]   \* x.n = a; b
ArrE(es)         == [k |-> "arr", es |-> es]
Idx(a, i)        == [k |-> "idx", a |-> a, i |-> i]
LenE(a)          == [k |-> "len", a |-> a]
MatchE(s, keys, arms, d) == [k |-> "match", s |-> s, keys |-> keys, arms |-> arms, d |-> d]

SampleRate == 48000

(* Store: c = state cells (call-tree path -> value), h = heap of variable  *)
(* cells (closures capture variables by reference), oom = a value left the *)
(* range in which TLC integers are trustworthy (program is out of model).  *)
EmptyStore == [c |-> <<>>, h |-> <<>>, oom |-> FALSE]

GetCell(c, p, z) == IF p \in DOMAIN c THEN c[p] ELSE z
PutCell(c, p, v) == [q \in DOMAIN c \cup {p} |-> IF q = p THEN v ELSE c[q]]

Bind(env, x, loc) == [y \in DOMAIN env \cup {x} |-> IF y = x THEN loc ELSE env[y]]

Limit == 100000000
Small(v) == v > -30000 /\ v < 30000
InRange(v) == v > -Limit /\ v < Limit

(* truncated remainder (sign of the dividend), divisor > 0 *)
Rem(a, b) == IF a >= 0 THEN a % b ELSE -((-a) % b)
B2I(b) == IF b THEN 1 ELSE 0

BinOp(op, a, b) ==
  CASE op = "+"  -> a + b
    [] op = "-"  -> a - b
    [] op = "*"  -> IF Small(a) /\ Small(b) THEN a * b ELSE Limit
    [] op = "%"  -> IF b > 0 THEN Rem(a, b) ELSE Limit
    [] op = "<"  -> B2I(a < b)
    [] op = "<=" -> B2I(a <= b)
    [] op = ">"  -> B2I(a > b)
    [] op = ">=" -> B2I(a >= b)
    [] op = "==" -> B2I(a = b)
    [] op = "!=" -> B2I(a # b)
    [] op = "&&" -> B2I(a > 0 /\ b > 0)
    [] op = "||" -> B2I(a > 0 \/ b > 0)

(* delay(n, x, t): ring of n cells with a write index, read before write,  *)
(* the delay time is floor(clamp(t, 0, n-1)).                              *)
DelayZero(n) == [w |-> 0, d |-> [i \in 0..(n-1) |-> 0]]
DelayStep(cell, n, x, t) ==
  LET ds == IF t < 0 THEN 0 ELSE IF t > n - 1 THEN n - 1 ELSE t
      w  == cell.w % n
      r  == (w + n - ds) % n
  IN [v |-> cell.d[r],
      cell |-> [w |-> (w + 1) % n, d |-> [cell.d EXCEPT ![w] = x]]]

SelfKey == <<0>>     \* child positions start at 1, so this never collides with a site

RECURSIVE Eval(_,_,_,_,_,_), EvalSeq(_,_,_,_,_,_,_), Apply(_,_,_,_,_), CallFn(_,_,_,_,_)

(* Eval(C, e, env, path, pos, S) = [v |-> value, S |-> store]                *)
(*  C    : [fns |-> name -> [ps, b, self, z], genv |-> global env, now, inp]   *)
(*  env  : variable name -> heap location                                     *)
(*  path : call-tree path of the running function activation                  *)
(*  pos  : position of e inside the running function's body                   *)
Eval(C, e, env, path, pos, S) ==
  CASE e.k = "lit" -> [v |-> e.v, S |-> S]
    [] e.k = "var" ->
         IF e.x \in DOMAIN env THEN [v |-> S.h[env[e.x]], S |-> S]
         ELSE IF e.x \in DOMAIN C.genv THEN [v |-> S.h[C.genv[e.x]], S |-> S]
         ELSE \* a global function used as a value
              [v |-> [clo |-> TRUE, ps |-> C.fns[e.x].ps, b |-> C.fns[e.x].b, env |-> <<>>,
                      fn |-> e.x], S |-> S]
    [] e.k = "now" -> [v |-> C.now, S |-> S]
    [] e.k = "sr" -> [v |-> SampleRate, S |-> S]
    [] e.k = "self" -> [v |-> GetCell(S.c, Append(path, SelfKey), e.z), S |-> S]
    [] e.k = "neg" ->
         LET r == Eval(C, e.a, env, path, Append(pos, 1), S) IN [v |-> -r.v, S |-> r.S]
    [] e.k = "bin" ->
         LET ra == Eval(C, e.a, env, path, Append(pos, 1), S)
             rb == Eval(C, e.b, env, path, Append(pos, 2), ra.S)
             v  == BinOp(e.op, ra.v, rb.v)
         IN [v |-> IF InRange(v) THEN v ELSE 0,
             S |-> IF InRange(v) THEN rb.S ELSE [rb.S EXCEPT !.oom = TRUE]]
    [] e.k = "if" ->
         LET rc == Eval(C, e.c, env, path, Append(pos, 1), S)
         IN IF rc.v > 0 THEN Eval(C, e.t, env, path, Append(pos, 2), rc.S)
            ELSE Eval(C, e.e, env, path, Append(pos, 3), rc.S)
    [] e.k = "let" ->
         LET ra == Eval(C, e.a, env, path, Append(pos, 1), S)
             h2 == Append(ra.S.h, ra.v)
         IN Eval(C, e.b, Bind(env, e.x, Len(h2)), path, Append(pos, 2), [ra.S EXCEPT !.h = h2])
    [] e.k = "lett" ->
         LET ra == Eval(C, e.a, env, path, Append(pos, 1), S)
             n  == Len(e.xs)
             h2 == ra.S.h \o ra.v
             base == Len(ra.S.h)
             env2 == [y \in DOMAIN env \cup {e.xs[i] : i \in 1..n} |->
                        IF \E i \in 1..n : e.xs[i] = y
                        THEN base + (CHOOSE i \in 1..n : e.xs[i] = y)
                        ELSE env[y]]
         IN Eval(C, e.b, env2, path, Append(pos, 2), [ra.S EXCEPT !.h = h2])
    [] e.k = "asg" ->
         LET ra == Eval(C, e.a, env, path, Append(pos, 1), S)
             loc == IF e.x \in DOMAIN env THEN env[e.x] ELSE C.genv[e.x]
         IN Eval(C, e.b, env, path, Append(pos, 2),
                 [ra.S EXCEPT !.h = [ra.S.h EXCEPT ![loc] = ra.v]])
    [] e.k = "tup" ->
         LET r == EvalSeq(C, e.es, 1, env, path, pos, S) IN [v |-> r.vs, S |-> r.S]
    [] e.k = "proj" ->
         LET r == Eval(C, e.a, env, path, Append(pos, 1), S) IN [v |-> r.v[e.i + 1], S |-> r.S]
    [] e.k = "lam" ->
         [v |-> [clo |-> TRUE, ps |-> e.ps, b |-> e.b, env |-> env, fn |-> ""], S |-> S]
    [] e.k = "app" ->
         LET rf == Eval(C, e.f, env, path, Append(pos, 1), S)
             ra == EvalSeq(C, e.as, 1, env, path, Append(pos, 2), rf.S)
         IN Apply(C, rf.v, ra.vs, Append(path, pos), ra.S)
    [] e.k = "call" ->
         LET ra == EvalSeq(C, e.as, 1, env, path, pos, S)
         IN CallFn(C, e.f, ra.vs, Append(path, pos), ra.S)
    [] e.k = "mem" ->
         LET ra == Eval(C, e.a, env, path, Append(pos, 1), S)
             p  == Append(path, pos)
         IN [v |-> GetCell(ra.S.c, p, 0), S |-> [ra.S EXCEPT !.c = PutCell(ra.S.c, p, ra.v)]]
    [] e.k = "delay" ->
         LET ra == Eval(C, e.a, env, path, Append(pos, 1), S)
             rt == Eval(C, e.t, env, path, Append(pos, 2), ra.S)
             p  == Append(path, pos)
             st == DelayStep(GetCell(rt.S.c, p, DelayZero(e.n)), e.n, ra.v, rt.v)
         IN [v |-> st.v, S |-> [rt.S EXCEPT !.c = PutCell(rt.S.c, p, st.cell)]]
    \* a record value is a function from field names to values; the initialisers run in the order they are
    \* written (the layout of the record is not observable)
    [] e.k = "rec" ->
         LET n == Len(e.fs)
             r == EvalSeq(C, [i \in 1..n |-> e.fs[i].a], 1, env, path, pos, S)
         IN [v |-> [f \in {e.fs[i].n : i \in 1..n} |-> r.vs[CHOOSE i \in 1..n : e.fs[i].n = f]], S |-> r.S]
    [] e.k = "fld" ->
         LET r == Eval(C, e.a, env, path, Append(pos, 1), S) IN [v |-> r.v[e.n], S |-> r.S]
    [] e.k = "recupd" ->
         LET n == Len(e.fs)
             rb == Eval(C, e.a, env, path, Append(pos, 1), S)
             r == EvalSeq(C, [i \in 1..n |-> e.fs[i].a], 1, env, path, Append(pos, 2), rb.S)
         IN [v |-> [f \in DOMAIN rb.v |-> IF \E i \in 1..n : e.fs[i].n = f
                                            THEN r.vs[CHOOSE i \in 1..n : e.fs[i].n = f] ELSE rb.v[f]],
             S |-> r.S]
    [] e.k = "asgf" ->      \* a record variable holds a value: assigning a field replaces the variable's value
         LET ra == Eval(C, e.a, env, path, Append(pos, 1), S)
             loc == IF e.x \in DOMAIN env THEN env[e.x] ELSE C.genv[e.x]
         IN Eval(C, e.b, env, path, Append(pos, 2),
                 [ra.S EXCEPT !.h = [ra.S.h EXCEPT ![loc] = [@ EXCEPT ![e.n] = ra.v]]])
    [] e.k = "arr" ->
         LET r == EvalSeq(C, e.es, 1, env, path, pos, S) IN [v |-> r.vs, S |-> r.S]
    [] e.k = "idx" ->       \* an index outside the array is outside the model
         LET ra == Eval(C, e.a, env, path, Append(pos, 1), S)
             ri == Eval(C, e.i, env, path, Append(pos, 2), ra.S)
             ok == ri.v >= 0 /\ ri.v < Len(ra.v)
         IN [v |-> IF ok THEN ra.v[ri.v + 1] ELSE 0,
             S |-> IF ok THEN ri.S ELSE [ri.S EXCEPT !.oom = TRUE]]
    [] e.k = "len" ->
         LET r == Eval(C, e.a, env, path, Append(pos, 1), S) IN [v |-> Len(r.v), S |-> r.S]
    [] e.k = "match" ->     \* the first arm whose key equals the scrutinee, else the default arm
         LET rs == Eval(C, e.s, env, path, Append(pos, 1), S)
             hit == {i \in 1..Len(e.keys) : e.keys[i] = rs.v}
         IN IF hit # {}
            THEN LET i == CHOOSE i \in hit : \A j \in hit : i <= j
                 IN Eval(C, e.arms[i], env, path, Append(pos, 1 + i), rs.S)
            ELSE Eval(C, e.d, env, path, Append(pos, Len(e.keys) + 2), rs.S)

(* operands / arguments / tuple elements: left to right *)
EvalSeq(C, es, i, env, path, pos, S) ==
  IF i > Len(es) THEN [vs |-> <<>>, S |-> S]
  ELSE LET r == Eval(C, es[i], env, path, Append(pos, i), S)
           rest == EvalSeq(C, es, i + 1, env, path, pos, r.S)
       IN [vs |-> <<r.v>> \o rest.vs, S |-> rest.S]

(* apply a closure value: parameters get fresh variable cells *)
Apply(C, f, vs, path, S) ==
  LET n == Len(f.ps)
      base == Len(S.h)
      env2 == [y \in DOMAIN f.env \cup {f.ps[i] : i \in 1..n} |->
                 IF \E i \in 1..n : f.ps[i] = y
                 THEN base + (CHOOSE i \in 1..n : f.ps[i] = y)
                 ELSE f.env[y]]
  IN IF f.fn # "" THEN CallFn(C, f.fn, vs, path, S)
     ELSE Eval(C, f.b, env2, path, <<>>, [S EXCEPT !.h = S.h \o vs])

(* call a global function at call-tree node `path`; a function that uses   *)
(* `self` stores its return value in the node's own cell                    *)
CallFn(C, f, vs, path, S) ==
  LET fd == C.fns[f]
      n == Len(fd.ps)
      base == Len(S.h)
      env2 == [y \in {fd.ps[i] : i \in 1..n} |-> base + (CHOOSE i \in 1..n : fd.ps[i] = y)]
      r == Eval(C, fd.b, env2, path, <<>>, [S EXCEPT !.h = S.h \o vs])
  IN IF fd.self
     THEN [v |-> r.v, S |-> [r.S EXCEPT !.c = PutCell(r.S.c, Append(path, SelfKey), r.v)]]
     ELSE r

---------------------------------------------------------------------------
(* Programs: [fns |-> record name -> [ps, b, self], globals |-> sequence of  *)
(* [x, a]].  `dsp` takes no parameter or one (the input sample).            *)

RECURSIVE InitGlobals(_,_,_,_)
InitGlobals(prog, i, genv, S) ==
  IF i > Len(prog.globals) THEN [genv |-> genv, S |-> S]
  ELSE LET C == [fns |-> prog.fns, genv |-> genv, now |-> 0]
           g == prog.globals[i]
           r == Eval(C, g.a, <<>>, << <<0, i>> >>, <<>>, S)
           h2 == Append(r.S.h, r.v)
       IN InitGlobals(prog, i + 1, Bind(genv, g.x, Len(h2)), [r.S EXCEPT !.h = h2])

(* state of a running program: [genv, S, gh] (gh = number of global cells) *)
Boot(prog) == LET r == InitGlobals(prog, 1, <<>>, EmptyStore)
              IN [genv |-> r.genv, S |-> r.S, gh |-> Len(r.S.h)]

(* one sample: returns [out |-> sequence of channel values, st |-> state]   *)
RunSample(prog, st, now, inp) ==
  LET C == [fns |-> prog.fns, genv |-> st.genv, now |-> now]
      args == IF Len(prog.fns.dsp.ps) = 0 THEN <<>> ELSE <<inp>>
      r == CallFn(C, "dsp", args, <<>>, st.S)
      out == IF prog.nout = 1 THEN <<r.v>> ELSE r.v
  IN [out |-> out,
      st |-> [st EXCEPT !.S = [r.S EXCEPT !.h = SubSeq(r.S.h, 1, st.gh)]]]

RECURSIVE RunN(_,_,_,_,_)
RunN(prog, st, now, inputs, n) ==   \* outputs of samples now .. now+n-1
  IF n = 0 THEN [outs |-> <<>>, st |-> st]
  ELSE LET r == RunSample(prog, st, now, inputs[now + 1])
           rest == RunN(prog, r.st, now + 1, inputs, n - 1)
       IN [outs |-> <<r.out>> \o rest.outs, st |-> rest.st]

Outputs(prog, inputs, n) == RunN(prog, Boot(prog), 0, inputs, n)
---------------------------------------------------------------------------
(* Consistent renaming of user-chosen identifiers (property C16).  sigma is *)
(* a function on names; names outside its domain are kept.                  *)
Ren(sigma, x) == IF x \in DOMAIN sigma THEN sigma[x] ELSE x

RECURSIVE RenameE(_,_)
RenameE(sigma, e) ==
  LET R(x) == RenameE(sigma, x)
      RS(xs) == [i \in 1..Len(xs) |-> RenameE(sigma, xs[i])]
  IN CASE e.k \in {"lit", "now", "sr", "self"} -> e
       [] e.k = "var"  -> [e EXCEPT !.x = Ren(sigma, e.x)]
       [] e.k = "neg"  -> [e EXCEPT !.a = R(e.a)]
       [] e.k = "bin"  -> [e EXCEPT !.a = R(e.a), !.b = R(e.b)]
       [] e.k = "if"   -> [e EXCEPT !.c = R(e.c), !.t = R(e.t), !.e = R(e.e)]
       [] e.k = "let"  -> [e EXCEPT !.x = Ren(sigma, e.x), !.a = R(e.a), !.b = R(e.b)]
       [] e.k = "lett" -> [e EXCEPT !.xs = [i \in 1..Len(e.xs) |-> Ren(sigma, e.xs[i])], !.a = R(e.a), !.b = R(e.b)]
       [] e.k = "asg"  -> [e EXCEPT !.x = Ren(sigma, e.x), !.a = R(e.a), !.b = R(e.b)]
       [] e.k = "tup"  -> [e EXCEPT !.es = RS(e.es)]
       [] e.k = "proj" -> [e EXCEPT !.a = R(e.a)]
       [] e.k = "lam"  -> [e EXCEPT !.ps = [i \in 1..Len(e.ps) |-> Ren(sigma, e.ps[i])], !.b = R(e.b)]
       [] e.k = "app"  -> [e EXCEPT !.f = R(e.f), !.as = RS(e.as)]
       [] e.k = "call" -> [e EXCEPT !.f = Ren(sigma, e.f), !.as = RS(e.as)]
       [] e.k = "mem"  -> [e EXCEPT !.a = R(e.a)]
       [] e.k = "delay" -> [e EXCEPT !.a = R(e.a), !.t = R(e.t)]
       \* field names are user-chosen identifiers as well
       [] e.k = "rec"  -> [e EXCEPT !.fs = [i \in 1..Len(e.fs) |-> [n |-> Ren(sigma, e.fs[i].n), a |-> R(e.fs[i].a)]]]
       [] e.k = "fld"  -> [e EXCEPT !.a = R(e.a), !.n = Ren(sigma, e.n)]
       [] e.k = "recupd" -> [e EXCEPT !.a = R(e.a),
                                      !.fs = [i \in 1..Len(e.fs) |-> [n |-> Ren(sigma, e.fs[i].n), a |-> R(e.fs[i].a)]]]
       [] e.k = "asgf" -> [e EXCEPT !.x = Ren(sigma, e.x), !.n = Ren(sigma, e.n), !.a = R(e.a), !.b = R(e.b)]
       [] e.k = "arr"  -> [e EXCEPT !.es = RS(e.es)]
       [] e.k = "idx"  -> [e EXCEPT !.a = R(e.a), !.i = R(e.i)]
       [] e.k = "len"  -> [e EXCEPT !.a = R(e.a)]
       [] e.k = "match" -> [e EXCEPT !.s = R(e.s), !.arms = RS(e.arms), !.d = R(e.d)]

(* dsp keeps its name (it is the entry point, not a user-chosen identifier) *)
RenameProg(sigma, prog) ==
  LET s2 == [x \in DOMAIN sigma \ {"dsp"} |-> sigma[x]]
      names == DOMAIN prog.fns
  IN [prog EXCEPT
        !.fns = [g \in {Ren(s2, f) : f \in names} |->
                   LET f == CHOOSE f \in names : Ren(s2, f) = g
                   IN [prog.fns[f] EXCEPT !.ps = [i \in 1..Len(prog.fns[f].ps) |-> Ren(s2, prog.fns[f].ps[i])],
                                          !.b = RenameE(s2, prog.fns[f].b)]],
        !.globals = [i \in 1..Len(prog.globals) |->
                       [x |-> Ren(s2, prog.globals[i].x), a |-> RenameE(s2, prog.globals[i].a)]]]
=============================================================================

-------------------------------- MODULE Heap --------------------------------
(***************************************************************************)
(* Lifecycle of the VM's reference-counted objects (property C12): heap    *)
(* objects (closure wrappers, boxed values of recursive types) and the     *)
(* closures themselves.  Pure definitions used by HeapTrace (validation of *)
(* the events recorded by the hooks) and MCHeap (the protocol the compiler *)
(* inserts, explored for short sequences of constructs).                   *)
(*                                                                         *)
(* An object is identified by its versioned slot key, so reuse of a slot   *)
(* after a free is visible.  `live` maps every live key to its reference   *)
(* count.                                                                  *)
(***************************************************************************)
EXTENDS Integers, Sequences, FiniteSets, TLC

Alloc(live, id) == [k \in DOMAIN live \cup {id} |-> IF k = id THEN 1 ELSE live[k]]
Retain(live, id) == [live EXCEPT ![id] = @ + 1]
Release(live, id) == IF live[id] = 1 THEN [k \in DOMAIN live \ {id} |-> live[k]]
                     ELSE [live EXCEPT ![id] = @ - 1]

(* an event may only touch a live object (no use after release), and the  *)
(* count the implementation reports must be the model's                    *)
CanAlloc(live, id) == id \notin DOMAIN live
CanTouch(live, id, rcBefore) == id \in DOMAIN live /\ live[id] = rcBefore
=============================================================================

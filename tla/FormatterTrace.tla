--------------------------- MODULE FormatterTrace ---------------------------
(***************************************************************************)
(* Contract of the formatter (C14) as a trace specification.  One record   *)
(* per Format(text, width, indent) event on a syntactically valid text,    *)
(* with the projections the harness computes with the real tokenizer and   *)
(* parser:                                                                 *)
(*   status       "ok" | "refused" | "panic"                               *)
(*   nerr_out     syntax errors of the formatter's output                  *)
(*   same_ast     the output parses to the input's syntax tree (no spans)   *)
(*   comments_in / comments_out   the comments, in order                   *)
(*   text1, text2 digests of the output and of formatting the output again *)
(* The only step a Format event may take is                                *)
(*   Format == output parses /\ same tree /\ same comments /\ fixed point  *)
(* anything else is reported with the first conjunct that fails.           *)
(***************************************************************************)
EXTENDS Integers, Sequences, TLC, Json, IOUtils

Rec == ndJsonDeserialize(IOEnv.TRACE)
VARIABLES l
vars == <<l>>
Init == l = 1
R == Rec[l]

Verdict(r) ==
  IF r.status # "ok" THEN "the formatter gave no output for a valid program (" \o r.status \o ")"
  ELSE IF r.nerr_out # 0 THEN "the output does not parse"
  ELSE IF ~r.same_ast THEN "the output parses to a different syntax tree"
  ELSE IF r.comments_out # r.comments_in THEN "comments lost, duplicated or reordered"
  ELSE IF r.text2 # r.text1 THEN "formatting the output again changes it"
  ELSE "ok"

Format ==
  /\ l <= Len(Rec)
  /\ (IF Verdict(R) # "ok"
      THEN PrintT(<<"FAIL", ToJson([id |-> R.id, what |-> Verdict(R), width |-> R.width, indent |-> R.indent])>>)
      ELSE TRUE)
  /\ l' = l + 1
  /\ (IF l = Len(Rec) THEN PrintT(<<"CONSUMED", ToJson([n |-> Len(Rec)])>>) ELSE TRUE)
Next == Format
Spec == Init /\ [][Next]_vars
=============================================================================

------------------------------ MODULE Scheduler ------------------------------
(***************************************************************************)
(* The sample-accurate scheduler behind `f@t` (property C11), modelled as  *)
(* the two mechanisms the runtimes implement:                              *)
(*                                                                         *)
(*  VM   (mimium-scheduler/src/scheduler.rs): schedule_at sends the task   *)
(*        over an mpsc channel; the audio worker's on_sample(t) first      *)
(*        drains the channel, refusing a task whose time is not later than *)
(*        the time of the *previous* on_sample, then sets its clock to t,  *)
(*        then pops and runs every task with when <= t, one at a time.     *)
(*  WASM (wasm_handle.rs): the trampoline checks the time against the      *)
(*        shared clock and pushes into the shared heap at once;            *)
(*        on_sample(t) sets the clock, drains all due tasks into a vector  *)
(*        and then runs them.                                              *)
(*                                                                         *)
(* Both are checked against the property itself: every scheduled instance  *)
(* whose time (truncated to an integer) is later than the sample in which  *)
(* it was scheduled fires exactly once, at the start of that sample,       *)
(* before that sample's dsp.                                               *)
(*                                                                         *)
(* A configuration is a sequence of task definitions                       *)
(*   [src |-> "main" | "dsp", at |-> sample in which dsp schedules it,     *)
(*    delay |-> distance >= 1 of its time from the scheduling sample,      *)
(*    period |-> 0 (one shot) | p >= 1 (reschedules itself p later)]       *)
(* Task i increments counter i; dsp outputs the counters.                  *)
(***************************************************************************)
EXTENDS Integers, Sequences, FiniteSets, TLC

CONSTANTS Backend,     \* "vm" | "wasm"
          NSamples,
          MaxTasks, Delays, Periods, DspAt,  \* configuration space
          Bug          \* "none"; "pop_strict" makes the model pop only tasks with when < now (used by the
                       \* self-test that the invariants are not vacuous)

VARIABLES cfg,        \* sequence of task definitions (grows in phase "cfg")
          phase,      \* "cfg" | "main" | "worker" | "pop" | "dsp" | "done" | "refused"
          now,        \* index of the sample being processed
          chan,       \* VM: tasks sent by schedule_at, not yet received by the worker
          heap,       \* set of pending [id, when, n] (n distinguishes instances)
          clock,      \* the worker's cur_time / the shared current_time
          due,        \* WASM: tasks drained for execution in this sample
          ctr,        \* ctr[i] = number of times task i ran
          outs,       \* outputs of dsp so far (counter vectors)
          sched,      \* history: every instance ever scheduled [id, when, n, in]
          fired,      \* history: sequence of [id, when, n, at]
          nseq        \* next instance number
vars == <<cfg, phase, now, chan, heap, clock, due, ctr, outs, sched, fired, nseq>>

TaskDefs == [src : {"main"}, at : {0}, delay : Delays, period : Periods]
              \cup [src : {"dsp"}, at : DspAt, delay : Delays, period : Periods]

(* canonical order of a configuration (no permutations of the same multiset) *)
Key(d) == (IF d.src = "main" THEN 0 ELSE 1000 + d.at * 100) + d.delay * 10 + d.period

Init == /\ cfg = <<>> /\ phase = "cfg" /\ now = 0 /\ chan = <<>> /\ heap = {} /\ clock = 0
        /\ due = <<>> /\ ctr = <<>> /\ outs = <<>> /\ sched = {} /\ fired = <<>> /\ nseq = 1

AddTask == /\ phase = "cfg" /\ Len(cfg) < MaxTasks
           /\ \E d \in TaskDefs : /\ (IF cfg = <<>> THEN TRUE ELSE Key(cfg[Len(cfg)]) <= Key(d))
                                  /\ cfg' = Append(cfg, d)
           /\ UNCHANGED <<phase, now, chan, heap, clock, due, ctr, outs, sched, fired, nseq>>

StartMain == /\ phase = "cfg" /\ cfg # <<>>
             /\ phase' = "main"
             /\ ctr' = [i \in 1..Len(cfg) |-> 0]
             /\ UNCHANGED <<cfg, now, chan, heap, clock, due, outs, sched, fired, nseq>>

(* schedule_at as each backend performs it; `insts` is a sequence of [id, when] *)
RECURSIVE Number(_,_,_)
Number(insts, n, cur) ==
  IF insts = <<>> THEN <<>>
  ELSE <<[id |-> Head(insts).id, when |-> Head(insts).when, n |-> n, in |-> cur]>>
       \o Number(Tail(insts), n + 1, cur)

Strip(i) == [id |-> i.id, when |-> i.when, n |-> i.n]
Range(s) == {s[i] : i \in 1..Len(s)}

(* returns [ok, chan, heap]; the WASM trampoline refuses when <= clock at call time *)
Schedule(insts) ==
  IF Backend = "vm"
  THEN [ok |-> TRUE, chan |-> chan \o [i \in 1..Len(insts) |-> Strip(insts[i])], heap |-> heap]
  ELSE [ok |-> \A i \in 1..Len(insts) : insts[i].when > clock,
        chan |-> chan, heap |-> heap \cup {Strip(insts[i]) : i \in 1..Len(insts)}]

(* global scope: the main-scheduled tasks, in program order *)
Main ==
  /\ phase = "main"
  /\ LET idx == SelectSeq([i \in 1..Len(cfg) |-> i], LAMBDA i : cfg[i].src = "main")
         insts == Number([k \in 1..Len(idx) |-> [id |-> idx[k], when |-> cfg[idx[k]].delay]], nseq, -1)
         r == Schedule(insts)
     IN /\ chan' = r.chan /\ heap' = r.heap
        /\ sched' = sched \cup Range(insts)
        /\ nseq' = nseq + Len(insts)
        /\ phase' = IF r.ok THEN "worker" ELSE "refused"
  /\ UNCHANGED <<cfg, now, clock, due, ctr, outs, fired>>

Ready(t) == IF Bug = "pop_strict" THEN t.when < now ELSE t.when <= now

(* on_sample(now), first half *)
Worker ==
  /\ phase = "worker" /\ now < NSamples
  /\ IF Backend = "vm"
     THEN \* receive-then-check against the clock of the previous sample, then set the clock
          /\ IF \A i \in 1..Len(chan) : chan[i].when > clock
             THEN heap' = heap \cup Range(chan) /\ phase' = "pop"
             ELSE heap' = heap /\ phase' = "refused"
          /\ chan' = <<>> /\ clock' = now /\ due' = <<>>
     ELSE \* set the clock, drain every due task into a vector
          LET d == {t \in heap : Ready(t)}
              RECURSIVE Order(_)
              Order(S) == IF S = {} THEN <<>>
                          ELSE LET x == CHOOSE y \in S : \A z \in S : y.when <= z.when
                               IN <<x>> \o Order(S \ {x})
          IN /\ clock' = now /\ due' = Order(d) /\ heap' = heap \ d
             /\ chan' = chan /\ phase' = "pop"
  /\ UNCHANGED <<cfg, now, ctr, outs, sched, fired, nseq>>

(* run one due task; a periodic task schedules its next instance *)
Pop ==
  /\ phase = "pop"
  /\ IF Backend = "vm"
     THEN IF \E t \in heap : Ready(t)
          THEN \E t \in {x \in heap : Ready(x) /\ \A y \in heap : x.when <= y.when} :
                 LET d == cfg[t.id]
                     next == IF d.period > 0 THEN <<[id |-> t.id, when |-> now + d.period]>> ELSE <<>>
                     insts == Number(next, nseq, now)
                 IN /\ ctr' = [ctr EXCEPT ![t.id] = @ + 1]
                    /\ fired' = Append(fired, [id |-> t.id, when |-> t.when, n |-> t.n, at |-> now])
                    /\ sched' = sched \cup Range(insts)
                    /\ nseq' = nseq + Len(insts)
                    /\ chan' = chan \o [i \in 1..Len(insts) |-> Strip(insts[i])]
                    /\ heap' = heap \ {t}
                    /\ phase' = "pop" /\ due' = due
          ELSE /\ phase' = "dsp"
               /\ UNCHANGED <<ctr, fired, sched, nseq, chan, heap, due>>
     ELSE IF due # <<>>
          THEN LET t == Head(due)
                   d == cfg[t.id]
                   next == IF d.period > 0 THEN <<[id |-> t.id, when |-> now + d.period]>> ELSE <<>>
                   insts == Number(next, nseq, now)
                   ok == \A i \in 1..Len(insts) : insts[i].when > clock
               IN /\ ctr' = [ctr EXCEPT ![t.id] = @ + 1]
                  /\ fired' = Append(fired, [id |-> t.id, when |-> t.when, n |-> t.n, at |-> now])
                  /\ sched' = sched \cup Range(insts)
                  /\ nseq' = nseq + Len(insts)
                  /\ heap' = heap \cup {Strip(insts[i]) : i \in 1..Len(insts)}
                  /\ due' = Tail(due) /\ chan' = chan
                  /\ phase' = IF ok THEN "pop" ELSE "refused"
          ELSE /\ phase' = "dsp"
               /\ UNCHANGED <<ctr, fired, sched, nseq, chan, heap, due>>
  /\ UNCHANGED <<cfg, now, clock, outs>>

(* dsp of sample `now`: schedules the dsp-scheduled tasks of this sample, reads the counters *)
Dsp ==
  /\ phase = "dsp"
  /\ LET idx == SelectSeq([i \in 1..Len(cfg) |-> i], LAMBDA i : cfg[i].src = "dsp" /\ cfg[i].at = now)
         insts == Number([k \in 1..Len(idx) |-> [id |-> idx[k], when |-> now + cfg[idx[k]].delay]], nseq, now)
         r == Schedule(insts)
     IN /\ chan' = r.chan /\ heap' = r.heap
        /\ sched' = sched \cup Range(insts)
        /\ nseq' = nseq + Len(insts)
        /\ outs' = Append(outs, ctr)
        /\ now' = now + 1
        /\ phase' = IF ~r.ok THEN "refused" ELSE IF now + 1 = NSamples THEN "done" ELSE "worker"
  /\ UNCHANGED <<cfg, clock, due, ctr, fired>>

Next == AddTask \/ StartMain \/ Main \/ Worker \/ Pop \/ Dsp
Spec == Init /\ [][Next]_vars

---------------------------------------------------------------------------
(* C11 *)
FiredSet == Range(fired)

(* nothing fires that was not scheduled, nothing fires twice, everything fires at its time *)
OnlyScheduledOnceOnTime ==
  /\ \A i \in 1..Len(fired) : /\ \E s \in sched : s.n = fired[i].n /\ s.id = fired[i].id /\ s.when = fired[i].when
                              /\ fired[i].at = fired[i].when
  /\ \A i, j \in 1..Len(fired) : i # j => fired[i].n # fired[j].n

(* when dsp of sample t runs (and afterwards) every instance due at or before t has fired *)
NothingMissed ==
  (phase \in {"dsp", "done"} \/ (phase = "worker" /\ now > 0)) =>
     LET t == IF phase = "dsp" THEN now ELSE now - 1
     IN \A s \in sched : (s.when <= t /\ s.when > s.in) => \E i \in 1..Len(fired) : fired[i].n = s.n

(* a configuration whose times are all in the future is never refused *)
NeverRefused == phase # "refused"
=============================================================================

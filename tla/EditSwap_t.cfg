SPECIFICATION Spec
CONSTANTS
  NTicks = 6
  MaxEdits = 2
  MaxVoices = 3
  InitVoices = 2
  EditAt = {1, 3}
  Live = FALSE
  ShapeSet = {"counter", "lagv", "dlv", "nestv", "paccv"}
  Frames = {1}
INVARIANT CellsWellFormed
INVARIANT Emit
CHECK_DEADLOCK FALSE
